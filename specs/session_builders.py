"""session unit, part 1: capability.rs + the PDU builders of global.rs + the write path (C04, C11, C03).  Exports BUILDER_ITEMS(A-style list)."""
from vx.spec import *
from vx.layouts import shape_clauses
GLB = "src/core/global.rs"
CAP = "src/core/capability.rs"
CLI = "src/core/client.rs"

items = []
A = items.append
# ---------------- capability.rs
# derive(Copy, Clone) is added so that contracts can write `cap.cap_type as u16` on this field-less enum (no executable effect)
A(Item(CAP, "enum", "CapabilitySetType", mod="capability", strip_derive=["TryFromPrimitive", "Debug", "Hash"], try_from="u16", add_derive="Copy, Clone"))
A(Item(CAP, "struct", "Capability", mod="capability"))
for e in ("MajorType", "MinorType", "GeneralExtraFlag", "OrderFlag", "InputFlags"):
    A(Item(CAP, "enum", e, mod="capability"))

A(Raw(r"""
// ---------------- TS_CAPS_SET (MS-RDPBCGR 2.2.1.13.1.1.1): capabilitySetType, lengthCapability (counts its own 4 header bytes), capabilityData
pub open spec fn cap_body(capability: Option<Capability>) -> Seq<u8> { if capability is Some { ser(capability->Some_0.message.mv()) } else { Seq::<u8>::empty() } }
pub open spec fn cap_type_of(capability: Option<Capability>) -> u16 { if capability is Some { capability->Some_0.cap_type as u16 } else { 1u16 } }
pub open spec fn caps_set_bytes(cap_type: u16, body: Seq<u8>) -> Seq<u8> { le16(cap_type) + le16((body.len() + 4) as u16) + body }
/// the message tree `capability_set` builds (deterministic: Array::new(|| capability_set(None)) needs it)
pub open spec fn capability_set_view(cap_type: u16, body: Seq<u8>) -> MV {
    MV::Comp(seq![("capabilitySetType"@, MV::U16(cap_type, true)),
                  ("lengthCapability"@, MV::Dyn(Box::new(MV::U16((body.len() + 4) as u16, true)), OV::Size("capabilitySet"@, body.len() as usize))),
                  ("capabilitySet"@, MV::Bytes(body))])
}
pub open spec fn cache_entry_view() -> MV { MV::Comp(seq![("cacheEntries"@, MV::U16(0, true)), ("cacheMaximumCellSize"@, MV::U16(0, true))]) }
""", mod="capability", name="capability_specs"))

CAP_BUILDERS = ["ts_general_capability_set", "ts_bitmap_capability_set", "ts_order_capability_set", "ts_bitmap_cache_capability_set", "ts_pointer_capability_set",
                "ts_sound_capability_set", "ts_input_capability_set", "ts_brush_capability_set", "ts_glyph_capability_set", "ts_offscreen_capability_set",
                "ts_virtualchannel_capability_set", "ts_multifragment_update_capability_ts"]
# fuel = number of fields + 2 (ser -> ser_fields_from x (n + 1)); glyph: 10 trame elements
CAP_FUEL = {"ts_general_capability_set": 13, "ts_bitmap_capability_set": 15, "ts_order_capability_set": 19, "ts_bitmap_cache_capability_set": 14, "ts_pointer_capability_set": 4,
            "ts_sound_capability_set": 4, "ts_input_capability_set": 9, "ts_brush_capability_set": 3, "ts_glyph_capability_set": 13, "ts_offscreen_capability_set": 5,
            "ts_virtualchannel_capability_set": 4, "ts_multifragment_update_capability_ts": 3}
CAP_TYPE = {"ts_general_capability_set": "CapstypeGeneral", "ts_bitmap_capability_set": "CapstypeBitmap", "ts_order_capability_set": "CapstypeOrder",
            "ts_bitmap_cache_capability_set": "CapstypeBitmapcache", "ts_pointer_capability_set": "CapstypePointer", "ts_sound_capability_set": "CapstypeSound",
            "ts_input_capability_set": "CapstypeInput", "ts_brush_capability_set": "CapstypeBrush", "ts_glyph_capability_set": "CapstypeGlyphcache",
            "ts_offscreen_capability_set": "CapstypeOffscreencache", "ts_virtualchannel_capability_set": "CapstypeVirtualchannel",
            "ts_multifragment_update_capability_ts": "CapsettypeMultifragmentupdate"}
CAP_POST = {"ts_glyph_capability_set": """proof { let s = r.message.fields()[0].1->Trame_0; assert(s.len() == 10);
    assert forall|i: int| 0 <= i < 10 implies #[trigger] s[i] == cache_entry_view() by {}
    assert(ser_seq_from(s, 0).len() == 40); }"""}
for b in CAP_BUILDERS:
    A(Fn(CAP, b, mod="capability", props=["C04", "C06"], fuel=CAP_FUEL[b], post=CAP_POST.get(b),
         ensures=shape_clauses(CAP, b, res="r.message") + [("C04", "type", "r.cap_type is %s" % CAP_TYPE[b])]))
A(Fn(CAP, "cache_entry", mod="capability", ret="c", props=["C04"], fuel=4, keys=True,
     ensures=shape_clauses(CAP, "cache_entry", res="c") + [("C04", "view", "c.mv() == cache_entry_view()"), ("C04", "size", "ser(c.mv()).len() == 4")],
     post="proof { assert(c.fields() =~= cache_entry_view()->Comp_0); }"))
CAPSET_SIZE_CLOSURE = dict(params="length: &U16", ret="-> (r: MessageOption)",
                           spec='ensures r.ov() == OV::Size("capabilitySet"@, (if length.val() >= 4 { length.val() - 4 } else { 0 }) as usize)')
A(Fn(CAP, "capability_set", mod="capability", props=["C04", "C06"], ret="c", fuel=5, keys=True,
     requires=["capability is Some ==> ser(capability->Some_0.message.mv()).len() <= 0xfff0"],
     closures={1: CAPSET_SIZE_CLOSURE},
     ensures=shape_clauses(CAP, "capability_set", res="c", nth=2) + [
         ("C04", "type-field", "c.fields()[0].1 == MV::U16(cap_type_of(capability), true)"),
         ("C04", "length-field", "c.fields()[1].1 matches MV::Dyn(b, o) && *b == MV::U16((cap_body(capability).len() + 4) as u16, true) && o == OV::Size(\"capabilitySet\"@, cap_body(capability).len() as usize)"),
         ("C04", "body-field", "c.fields()[2].1 == MV::Bytes(cap_body(capability))"),
         ("C04", "view", "c.mv() == capability_set_view(cap_type_of(capability), cap_body(capability))"),
         ("C04", "bytes", "ser(c.mv()) =~= caps_set_bytes(cap_type_of(capability), cap_body(capability))"),
         ("C04", "size", "ser(c.mv()).len() == cap_body(capability).len() + 4")],
     post="proof { assert(c.fields() =~= capability_set_view(cap_type_of(capability), cap_body(capability))->Comp_0); }"))
A(Fn(CAP, "from_capability_set", impl=r"impl Capability", mod="capability", props=["C06"], keys=True,
     requires=['has_key(capability_set.fields(), "capabilitySetType"@)', 'has_key(capability_set.fields(), "capabilitySet"@)']))


# capability-set sizes documented in MS-RDPBCGR 2.2.7.1.x / 2.2.7.2.x (lengthCapability minus the 4 byte header)
# ts_virtualchannel_capability_set: 2.2.7.1.10 allows 8 (flags only) or 12 (flags + VCChunkSize); the code always sends VCChunkSize -> 12 - 4 = 8
CAP_SIZES = {"ts_general_capability_set": 20, "ts_bitmap_capability_set": 24, "ts_order_capability_set": 84, "ts_bitmap_cache_capability_set": 36,
             "ts_pointer_capability_set": 4, "ts_sound_capability_set": 4, "ts_input_capability_set": 84, "ts_brush_capability_set": 4,
             "ts_glyph_capability_set": 48, "ts_offscreen_capability_set": 8, "ts_virtualchannel_capability_set": 8, "ts_multifragment_update_capability_ts": 4}
for x in items:
    if x.kind == "fn" and x.name in CAP_SIZES:
        x.ensures.append(Clause("ser(r.message.mv()).len() == %d" % CAP_SIZES[x.name], props=["C04"], cid="documented-size"))

def G(name, impl=None, **kw):
    A(Fn(GLB, name, impl=impl, mod="global", **kw))

# ---- builders: shape derived from the code (helper contract), values from the specification
def builder(name, res, extra=None, props=("C04", "C06"), **kw):
    G(name, props=list(props), ensures=shape_clauses(GLB, name, res=res) + (extra or []), **kw)

builder("ts_demand_active_pdu", "r.message", extra=[(None, "type", "r.pdu_type is PdutypeDemandactivepdu")])
builder("ts_confirm_active_pdu", "r.message", extra=[(None, "type", "r.pdu_type is PdutypeConfirmactivepdu")])
builder("ts_deactivate_all_pdu", "r.message", extra=[(None, "type", "r.pdu_type is PdutypeDeactivateallpdu")])
builder("share_data_header", "r.message", props=("C04", "C06", "C11"),
        requires=["(if message is Some { message->Some_0@.len() } else { 0 }) + 18 <= 0xffff"],
        extra=[(None, "type", "r.pdu_type is PdutypeDatapdu"),
               ("C04,C11", "bytes", "ser(r.message.mv()) =~= share_data_bytes(o32(share_id, 0), (if pdu_type_2 is Some { pdu_type_2->Some_0 as u8 } else { 0x32u8 }), (if message is Some { message->Some_0@ } else { Seq::<u8>::empty() }))")])
builder("share_control_header", "c", ret="c", props=("C04", "C06", "C11"),
        requires=["(if message is Some { message->Some_0@.len() } else { 0 }) + 6 <= 0xffff"],
        extra=[("C04,C11", "bytes", "ser(c.mv()) =~= share_control_bytes((if pdu_type is Some { pdu_type->Some_0 as u16 } else { 0x11u16 }), o16(pdu_source, 0), (if message is Some { message->Some_0@ } else { Seq::<u8>::empty() }))")])
builder("ts_synchronize_pdu", "r.message", props=("C04", "C06", "C12", "C03"),
        extra=[(None, "type", "r.pdu_type is Pdutype2Synchronize"), ("C04,C12,C03", "bytes", "ser(r.message.mv()) =~= sync_body(o16(target_user, 0))")])
builder("ts_font_list_pdu", "r.message", props=("C04", "C12", "C03"),
        extra=[(None, "type", "r.pdu_type is Pdutype2Fontlist"), ("C04,C12,C03", "bytes", "ser(r.message.mv()) =~= fontlist_body()")])
builder("ts_set_error_info_pdu", "r.message", extra=[(None, "type", "r.pdu_type is Pdutype2SetErrorInfoPdu")])
builder("ts_control_pdu", "r.message", props=("C04", "C06", "C12", "C03"),
        extra=[(None, "type", "r.pdu_type is Pdutype2Control"), ("C04,C12,C03", "bytes", "ser(r.message.mv()) =~= control_body(if action is Some { action->Some_0 as u16 } else { 4u16 })")])
builder("ts_font_map_pdu", "r.message", extra=[(None, "type", "r.pdu_type is Pdutype2Fontmap")])
builder("ts_input_pdu_data", "r.message", props=("C04", "C11"),
        extra=[(None, "type", "r.pdu_type is Pdutype2Input"),
               ("C04,C11", "bytes", "events is Some && events->Some_0.mv() is Arr ==> ser(r.message.mv()) =~= le16(events->Some_0.mv()->Arr_0.len() as u16) + le16(0) + ser_seq(events->Some_0.mv()->Arr_0)")])
builder("ts_input_event", "c", ret="c", props=("C04", "C11"),
        extra=[("C04,C11", "bytes", "ser(c.mv()) =~= input_event_bytes((if message_type is Some { message_type->Some_0 as u16 } else { 0x8001u16 }), (if data is Some { data->Some_0@ } else { Seq::<u8>::empty() }))")])
builder("ts_pointer_event", "r.message", props=("C04", "C11"),
        extra=[("C11", "type", "r.event_type is InputEventMouse"), ("C04,C11", "bytes", "ser(r.message.mv()) =~= le16(o16(flags, 0)) + le16(o16(x, 0)) + le16(o16(y, 0))")])
builder("ts_keyboard_event", "r.message", props=("C04", "C11"),
        extra=[("C11", "type", "r.event_type is InputEventScancode"), ("C04,C11", "bytes", "ser(r.message.mv()) =~= le16(o16(flags, 0)) + le16(o16(key_code, 0)) + le16(0)")])
# Verus crashes (mk_range) on arithmetic applied to a reference: `header >> 4` with header: &u8 is spelled with the explicit deref
builder("ts_fp_update", "c", ret="c", props=("C06", "C10"), body_sub=[(r"\(header >> 4\)", "(*header >> 4)")])
builder("ts_cd_header", "c", ret="c", props=("C06", "C10"))
builder("ts_bitmap_data", "c", ret="c", props=("C06", "C10"))
builder("ts_fp_update_bitmap", "r.message", props=("C06", "C10"), extra=[(None, "type", "r.fp_type is FastpathUpdatetypeBitmap")])
builder("ts_colorpointerattribute", "r.message", props=("C06",), extra=[(None, "type", "r.fp_type is FastpathUpdatetypeColor")])
G("ts_fp_update_synchronize", props=["C06"], ensures=[(None, "shape", "r.message.fields().len() == 0 && r.fp_type is FastpathUpdatetypeSynchronize")])
G("ts_fp_systempointerhiddenattribute", props=["C06"], ensures=[(None, "shape", "r.message.fields().len() == 0 && r.fp_type is FastpathUpdatetypePtrNull")])


WRITE_REQ = ["old(mcs).connected()"]
MCS_FRAME = [(None, "mcs-frame", "final(mcs).rest() == old(mcs).rest() && final(mcs).same_session(old(mcs)) && is_prefix(old(mcs).written(), final(mcs).written())")]
STATE_FRAME = [(None, "state-untouched", "final(self).st() == old(self).st() && final(self).same_config(old(self))")]
G("write_pdu", impl=r"impl Client", props=["C04", "C11", "C12", "C03"], fuel=6,
  requires=WRITE_REQ + ["ser(message.message.mv()).len() + 6 <= 0x7fff"],
  ensures=MCS_FRAME + [("C04,C11,C12,C03", "one-pdu", "r is Ok ==> final(mcs).written() =~= old(mcs).written() + mcs::mcs_frame(old(mcs).uid()->Some_0, old(mcs).chans()[\"global\"@], share_control_bytes(message.pdu_type as u16, self.uid(), ser(message.message.mv())))")])
G("write_data_pdu", impl=r"impl Client", props=["C04", "C11", "C12", "C03"], fuel=6,
  requires=WRITE_REQ + ["ser(message.message.mv()).len() + 24 <= 0x7fff"],
  ensures=MCS_FRAME + [("C04,C11,C12,C03", "one-data-pdu", "r is Ok ==> final(mcs).written() =~= old(mcs).written() + mcs::mcs_frame(old(mcs).uid()->Some_0, old(mcs).chans()[\"global\"@], data_pdu_frame(o32(self.share(), 0), self.uid(), message.pdu_type as u8, ser(message.message.mv())))")])
G("write_confirm_active_pdu", impl=r"impl Client", props=["C12", "C03", "C04"], fuel=6,
  requires=WRITE_REQ + ["old(self).name@.len() <= 1024"],
  ensures=MCS_FRAME + STATE_FRAME + [("C12,C03", "one-confirm-active", "r is Ok ==> exists|body: Seq<u8>| #[trigger] share_control_bytes(0x13, old(self).uid(), body).len() > 0 && final(mcs).written() =~= old(mcs).written() + mcs::mcs_frame(old(mcs).uid()->Some_0, old(mcs).chans()[\"global\"@], share_control_bytes(0x13, old(self).uid(), body))")])
G("write_client_finalize", impl=r"impl Client", props=["C12", "C03"],
  requires=WRITE_REQ,
  ensures=MCS_FRAME + [("C12,C03", "sync-coop-request-fontlist-in-order", """r is Ok ==> ({
      let u = old(mcs).uid()->Some_0; let g = old(mcs).chans()["global"@]; let sh = o32(self.share(), 0);
      final(mcs).written() =~= old(mcs).written()
        + mcs::mcs_frame(u, g, data_pdu_frame(sh, self.uid(), 0x1F, sync_body(self.chan())))
        + mcs::mcs_frame(u, g, data_pdu_frame(sh, self.uid(), 0x14, control_body(4)))
        + mcs::mcs_frame(u, g, data_pdu_frame(sh, self.uid(), 0x14, control_body(1)))
        + mcs::mcs_frame(u, g, data_pdu_frame(sh, self.uid(), 0x27, fontlist_body())) })""")])
G("write_input_event", impl=r"impl Client", props=["C11", "C12"], fuel=8,
  requires=WRITE_REQ + ["ser(event.message.mv()).len() <= 64"],
  ensures=MCS_FRAME + [("C12,C11", "gated", "!(self.st() is Data) ==> r is Err && r->Err_0 is RdpError && r->Err_0->RdpError_0.kind == RdpErrorKind::InvalidAutomata && final(mcs).written() == old(mcs).written()"),
                       ("C11", "one-input-pdu", "self.st() is Data && r is Ok ==> final(mcs).written() =~= old(mcs).written() + mcs::mcs_frame(old(mcs).uid()->Some_0, old(mcs).chans()[\"global\"@], slow_path_input(o32(self.share(), 0), self.uid(), event.event_type as u16, ser(event.message.mv())))")])

BUILDER_ITEMS = items
