"""unit engine2: EVERY `impl Message` of src/model/data.rs -- the containers Trame, Component, DynOption<T>, Array<T> (+ to_vec, DynOption::new,
Array::new / from_trame / inner / as_ref) and, once more, the leaves u8, U16, U32, Vec<u8>, Check<T>, Option<T> -- verified from the real bodies
against the engine contract that every other unit ASSUMES through prelude/model.rs (clauses copied verbatim, copy checked on every assembly).

The real trait is object-safe (`&mut dyn Write` / `&mut dyn Read`, elements are `Box<dyn Message>`); this unit keeps it that way
(prelude/engine2_model.rs): Trame is the native Vec<Box<dyn Message>>, calls on elements are dynamic dispatch.  Declared rewrites (logged):
  Rdyn   `&mut dyn Read` / `&mut dyn Write` parameters are spelled `&mut dyn DynRead` / `&mut dyn DynWrite` (base.rs' Read/Write are Sized-bound)
  Rco    the unsizing coercions Verus cannot follow are made explicit through trusted identity helpers: `&mut Cursor<Vec<u8>> -> &mut dyn ..`
         (Component::read sub-stream: dyn_reader, to_vec: dyn_writer) and `Box<T> -> Box<dyn Message>` for generic T (Array::read: box_dyn)
  Rit    `for (name, value) in self.iter() {` / `self.into_iter()` over the IndexMap and `for v in self` over `&mut Vec` become index `while`
         loops (get_index / get_index_mut / `&mut self[i]`), increment first, loop BODY verbatim (`for v in self` over `&Vec` stays as it is)
  Rfn    `Box<dyn Fn..>` fields (Verus has no `dyn Fn`): field type -> BoxedFilter<T> / BoxedFactory<T>, `Box::new(f)` -> `Boxed..::new(f)`,
         `(self.f)(x)` -> `self.f.call(x)`; the panicking factory closure of Array::from_trame gets the closure contract `requires false`
  Rvisit `visit` is verified as the method of a separate trait MessageVisit (Verus rejects the cycle trait Message -> DataType -> &Trame -> dyn Message);
         bounds `T: Message` of the visit impls become `T: Message + MessageVisit`
What is NEW relative to model.rs (side conditions wf()/rwf(), u64 bound of length(), clause E1) is documented at the trait in prelude/engine2_model.rs.
"""
import os, re
from vx.spec import *
from vx.extract import LostAnchor

DATA = "src/model/data.rs"
VERIF = os.path.dirname(os.path.dirname(os.path.abspath(__file__)))


# ------------------------------------------------------------------------------------------------------------------------------------
# the copied part of prelude/model.rs must stay identical to the original (checked on every assembly: see _CheckedUnit)
def _norm(s):
    return " ".join(re.sub(r"//[^\n]*", "", s).split())


def _method_ensures(trait_text, name):
    m = re.search(r"\bfn %s\b.*?\bensures\b(.*?);\s*(?:\n\s*\n|\n\s*fn |\n\})" % name, trait_text, re.S)
    if not m:
        raise LostAnchor("engine2: cannot find the ensures of Message::%s" % name)
    return re.sub(r"//[^\n]*", "", m.group(1))


def check_copy():
    model = open(os.path.join(VERIF, "prelude", "model.rs")).read()
    mine = open(os.path.join(VERIF, "prelude", "engine2_model.rs")).read()
    a = model.index("// Ghost view of a message tree")
    b = model.index("pub trait Message: Sized {")
    orig = model[a:b].strip()
    c0 = mine.index("// >>> COPY-OF prelude/model.rs (spec part)") + len("// >>> COPY-OF prelude/model.rs (spec part)")
    c1 = mine.index("// <<< COPY-OF prelude/model.rs (spec part)")
    copy = mine[c0:c1].strip()
    if orig != copy:
        import difflib
        d = "\n".join(list(difflib.unified_diff(orig.split("\n"), copy.split("\n"), "model.rs", "engine2_model.rs", lineterm=""))[:40])
        raise LostAnchor("engine2: the copied spec part of prelude/model.rs diverged from the original:\n" + d)
    t_model = model[b:model.index("\n}\n", b) + 3]
    t0 = mine.index("pub trait Message {")
    t_mine = mine[t0:mine.index("\n}\n", t0) + 3]
    t1 = mine.index("pub trait MessageVisit: Message {")
    t_mine += mine[t1:mine.index("\n}\n", t1) + 3]
    for name in ("write", "read", "length", "visit", "options"):
        e_model = [_norm(x) for x in _split_clauses(_method_ensures(t_model, name))]
        e_mine = [_norm(x) for x in _split_clauses(_method_ensures(t_mine, name))]
        for cl in e_model:
            if cl not in e_mine:
                raise LostAnchor("engine2: clause of model.rs Message::%s missing from the engine2 trait: %s" % (name, cl))


def check_io_copy():
    """the method contracts of DynRead / ReadBytesExt / DynWrite / WriteBytesExt contain every clause of prelude/base.rs Read / Write"""
    base = open(os.path.join(VERIF, "prelude", "base.rs")).read()
    mine = open(os.path.join(VERIF, "prelude", "engine2_model.rs")).read()
    def trait(text, header):
        a = text.index(header)
        return text[a:text.index("\n}\n", a) + 3]
    pairs = [("pub trait Read: Sized {", ["pub trait DynRead {", "pub trait ReadBytesExt: DynRead {"], ["read_exact", "read_to_end", "read_u8", "read_u16", "read_u32"]),
             ("pub trait Write: Sized {", ["pub trait DynWrite {", "pub trait WriteBytesExt: DynWrite {"], ["write_all", "write_u8", "write_u16", "write_u32"])]
    for bh, mhs, names in pairs:
        tb = trait(base, bh)
        tm = "".join(trait(mine, h) for h in mhs)
        for name in names:
            e_base = [_norm(x) for x in _split_clauses(_method_ensures(tb, name))]
            e_mine = [_norm(x) for x in _split_clauses(_method_ensures(tm, name))]
            for cl in e_base:
                if cl not in e_mine:
                    raise LostAnchor("engine2: clause of base.rs %s missing from the object-safe stream traits: %s" % (name, cl))


def _split_clauses(text):
    """split an ensures list at depth-0 commas"""
    out, depth, cur = [], 0, ""
    for ch in text:
        if ch in "([{":
            depth += 1
        elif ch in ")]}":
            depth -= 1
        if ch == "," and depth == 0:
            if cur.strip():
                out.append(cur)
            cur = ""
        else:
            cur += ch
    if cur.strip():
        out.append(cur)
    return out


class _CheckedUnit(Unit):
    """runs the two copy checks whenever the unit is ASSEMBLED (`preludes` is read by vx.assemble only): a divergence of prelude/model.rs or
    prelude/base.rs from the copied text makes the unit report `lost-anchor` instead of silently verifying against a stale contract"""

    @property
    def preludes(self):
        check_copy()
        check_io_copy()
        return self._preludes

    @preludes.setter
    def preludes(self, v):
        self._preludes = v


# ------------------------------------------------------------------------------------------------------------------------------------
W_SIG = [(r"&mut dyn Write\b", "&mut dyn DynWrite")]
R_SIG = [(r"&mut dyn Read\b", "&mut dyn DynRead")]

items = []
A = items.append

A(Item(DATA, "type", "Trame", mod=None))
A(Item(DATA, "type", "Component", mod=None))

# ---- proved lemmas about the spec functions of the contract
A(Raw(r"""
pub proof fn lemma_suffix_trans(a: Seq<u8>, b: Seq<u8>, c: Seq<u8>)
    requires is_suffix(a, b), is_suffix(b, c)
    ensures is_suffix(a, c)
{
    assert forall|i: int| 0 <= i < a.len() implies #[trigger] a[i] == c[c.len() - a.len() + i] by {
        assert(a[i] == b[b.len() - a.len() + i]);
        assert(b[b.len() - a.len() + i] == c[c.len() - b.len() + (b.len() - a.len() + i)]);
    }
}
pub proof fn lemma_suffix_skip(a: Seq<u8>, n: int)
    requires 0 <= n <= a.len()
    ensures is_suffix(a.skip(n), a)
{}
pub proof fn lemma_suffix_refl(a: Seq<u8>)
    ensures is_suffix(a, a)
{}
pub proof fn lemma_prefix_trans(a: Seq<u8>, b: Seq<u8>, c: Seq<u8>)
    requires is_prefix(a, b), is_prefix(b, c)
    ensures is_prefix(a, c)
{}
pub broadcast proof fn lemma_suffix_trans_b(a: Seq<u8>, b: Seq<u8>, c: Seq<u8>)
    requires #[trigger] is_suffix(a, b), #[trigger] is_suffix(b, c)
    ensures is_suffix(a, c)
{ lemma_suffix_trans(a, b, c); }
/// serialization of the first i elements
pub open spec fn ser_seq_pre(s: Seq<MV>, i: int) -> Seq<u8>
    decreases i
{
    if i <= 0 { Seq::empty() } else { ser_seq_pre(s, i - 1) + ser(s[i - 1]) }
}
pub proof fn lemma_seq_split(s: Seq<MV>, i: int)
    requires 0 <= i <= s.len()
    ensures ser_seq_from(s, 0) == ser_seq_pre(s, i) + ser_seq_from(s, i)
    decreases i
{
    if i > 0 {
        lemma_seq_split(s, i - 1);
        assert(ser_seq_from(s, i - 1) == ser(s[i - 1]) + ser_seq_from(s, i));
        assert(ser_seq_pre(s, i - 1) + (ser(s[i - 1]) + ser_seq_from(s, i)) =~= (ser_seq_pre(s, i - 1) + ser(s[i - 1])) + ser_seq_from(s, i));
    } else {
        assert(Seq::<u8>::empty() + ser_seq_from(s, 0) =~= ser_seq_from(s, 0));
    }
}
pub proof fn lemma_seq_pre_local(s: Seq<MV>, t: Seq<MV>, i: int)
    requires 0 <= i <= s.len(), i <= t.len(), forall|k: int| 0 <= k < i ==> s[k] == t[k]
    ensures ser_seq_pre(s, i) == ser_seq_pre(t, i)
    decreases i
{
    if i > 0 { lemma_seq_pre_local(s, t, i - 1); }
}
/// same_shape is transitive (a DynOption closure verified for the layout it was built with stays callable after any number of reads)
pub proof fn lemma_same_shape_trans(a: MV, b: MV, c: MV)
    requires same_shape(a, b), same_shape(b, c)
    ensures same_shape(a, c)
    decreases a
{
    match (a, b, c) {
        (MV::Trame(s1), MV::Trame(s2), MV::Trame(s3)) => {
            assert forall|i: int| #![trigger s1[i]] #![trigger s3[i]] 0 <= i < s1.len() implies same_shape(s1[i], s3[i]) by {
                lemma_same_shape_trans(s1[i], s2[i], s3[i]);
            }
        },
        (MV::Comp(f1), MV::Comp(f2), MV::Comp(f3)) => {
            assert forall|i: int| #![trigger f1[i]] #![trigger f3[i]] 0 <= i < f1.len() implies f1[i].0 == f3[i].0 && same_shape(f1[i].1, f3[i].1) by {
                assert(f1[i].0 == f2[i].0 && f2[i].0 == f3[i].0);
                lemma_same_shape_trans(f1[i].1, f2[i].1, f3[i].1);
            }
        },
        (MV::Opt(Some(x)), MV::Opt(Some(y)), MV::Opt(Some(z))) => { lemma_same_shape_trans(*x, *y, *z); },
        (MV::Dyn(x, _), MV::Dyn(y, _), MV::Dyn(z, _)) => { lemma_same_shape_trans(*x, *y, *z); },
        _ => {},
    }
}
/// whatever a read produced is similar to itself
pub proof fn lemma_same_shape_right_refl(a: MV, b: MV)
    requires same_shape(a, b)
    ensures same_shape(b, b)
    decreases a
{
    match (a, b) {
        (MV::Trame(s1), MV::Trame(s2)) => {
            assert forall|i: int| #![trigger s2[i]] 0 <= i < s2.len() implies same_shape(s2[i], s2[i]) by {
                lemma_same_shape_right_refl(s1[i], s2[i]);
            }
        },
        (MV::Comp(f1), MV::Comp(f2)) => {
            assert forall|i: int| #![trigger f2[i]] 0 <= i < f2.len() implies same_shape(f2[i].1, f2[i].1) by {
                lemma_same_shape_right_refl(f1[i].1, f2[i].1);
            }
        },
        (MV::Opt(Some(x)), MV::Opt(Some(y))) => { lemma_same_shape_right_refl(*x, *y); },
        (MV::Dyn(x, _), MV::Dyn(y, _)) => { lemma_same_shape_right_refl(*x, *y); },
        _ => {},
    }
}
""", mod="data", name="shape_lemmas"))


A(Raw(r"""
/// the skip set / the bytes after the first i fields (prefix form of ser_fields_from)
pub open spec fn fpre_skip(f: Seq<(Seq<char>, MV)>, i: int) -> Set<Seq<char>>
    decreases i
{
    if i <= 0 { Set::empty() } else {
        let s = fpre_skip(f, i - 1);
        if s.contains(f[i - 1].0) { s } else { match opt_of(f[i - 1].1) { OV::Skip(k) => s.insert(k), _ => s } }
    }
}
pub open spec fn fpre_bytes(f: Seq<(Seq<char>, MV)>, i: int) -> Seq<u8>
    decreases i
{
    if i <= 0 { Seq::empty() } else if fpre_skip(f, i - 1).contains(f[i - 1].0) { fpre_bytes(f, i - 1) } else { fpre_bytes(f, i - 1) + ser(f[i - 1].1) }
}
/// the Size options yielded by the non-skipped fields before i (a later one for the same name overrides): what Component::read must have
/// pending in `dynamic_size` when it reaches field i
pub open spec fn fpre_sizes(f: Seq<(Seq<char>, MV)>, i: int) -> Map<Seq<char>, usize>
    decreases i
{
    if i <= 0 { Map::empty() } else {
        let m = fpre_sizes(f, i - 1);
        if fpre_skip(f, i - 1).contains(f[i - 1].0) { m } else { match opt_of(f[i - 1].1) { OV::Size(k, n) => m.insert(k, n), _ => m } }
    }
}
/// sum of the first i per-field consumption counts
pub open spec fn isum(s: Seq<int>, i: int) -> int
    decreases i
{
    if i <= 0 { 0 } else { isum(s, i - 1) + s[i - 1] }
}
pub proof fn lemma_isum_push(s: Seq<int>, x: int, i: int)
    requires 0 <= i <= s.len()
    ensures isum(s.push(x), i) == isum(s, i)
    decreases i
{
    if i > 0 { lemma_isum_push(s, x, i - 1); }
}
/// read-side ledger: field k (not skipped) that had a Size(n) pending took exactly n bytes off the parent stream
pub open spec fn sized_exact(f: Seq<(Seq<char>, MV)>, cons: Seq<int>, i: int) -> bool {
    forall|k: int| 0 <= k < i && !fpre_skip(f, k).contains(f[k].0) && fpre_sizes(f, k).contains_key(f[k].0) ==> #[trigger] cons[k] == fpre_sizes(f, k)[f[k].0]
}
pub proof fn lemma_fields_split(f: Seq<(Seq<char>, MV)>, i: int)
    requires 0 <= i <= f.len()
    ensures ser_fields_from(f, 0, Set::empty()) == fpre_bytes(f, i) + ser_fields_from(f, i, fpre_skip(f, i))
    decreases i
{
    if i > 0 {
        lemma_fields_split(f, i - 1);
        let s = fpre_skip(f, i - 1);
        if s.contains(f[i - 1].0) {
            assert(ser_fields_from(f, i - 1, s) == ser_fields_from(f, i, s));
        } else {
            let s2 = match opt_of(f[i - 1].1) { OV::Skip(k) => s.insert(k), _ => s };
            assert(ser_fields_from(f, i - 1, s) == ser(f[i - 1].1) + ser_fields_from(f, i, s2));
            assert(fpre_bytes(f, i - 1) + (ser(f[i - 1].1) + ser_fields_from(f, i, s2)) =~= (fpre_bytes(f, i - 1) + ser(f[i - 1].1)) + ser_fields_from(f, i, s2));
        }
    } else {
        assert(Seq::<u8>::empty() + ser_fields_from(f, 0, Set::empty()) =~= ser_fields_from(f, 0, Set::empty()));
    }
}
pub proof fn lemma_fpre_local(f: Seq<(Seq<char>, MV)>, g: Seq<(Seq<char>, MV)>, i: int)
    requires 0 <= i <= f.len(), i <= g.len(), forall|k: int| 0 <= k < i ==> f[k] == g[k]
    ensures fpre_skip(f, i) == fpre_skip(g, i), fpre_bytes(f, i) == fpre_bytes(g, i), fpre_sizes(f, i) == fpre_sizes(g, i)
    decreases i
{
    if i > 0 { lemma_fpre_local(f, g, i - 1); }
}
pub open spec fn no_dyn_before(f: Seq<(Seq<char>, MV)>, i: int) -> bool {
    forall|k: int| 0 <= k < i ==> !((#[trigger] f[k]).1 is Dyn)
}
""", mod="data", name="fields_lemmas"))

def impl_specs(ty_regex, label, mv, wf, rwf):
    return Raw("    open spec fn mv(&self) -> MV { %s }\n    open spec fn wf(&self) -> bool { %s }\n    open spec fn rwf(&self) -> bool { %s }\n" % (mv, wf, rwf),
               mod="data", name="views_" + label, file=DATA, impl=ty_regex)


ENGINE_W = ["C03", "C04", "C11", "C12", "C14", "C15", "C16", "C17", "C01"]
ENGINE_R = ["C03", "C05", "C06", "C07", "C10", "C12", "C13", "C02", "C01", "C16"]
def M(ty_regex, name, **kw):
    """one method of an `impl Message for ..` block (Rdyn on the stream parameter)"""
    # the engine is on the dependency path of every property whose messages are built from trame!/component! layouts (ENGINE_ASM in their
    # assumptions): writers (write, length, options) for the emitting properties, readers for the parsing ones
    kw.setdefault("props", ["C18"] + {"write": ENGINE_W, "length": ENGINE_W, "options": ENGINE_W + ENGINE_R, "read": ENGINE_R}.get(name, []))
    if name == "write":
        kw["sig_sub"] = W_SIG + kw.get("sig_sub", [])
    if name == "read":
        kw["sig_sub"] = R_SIG + kw.get("sig_sub", [])
    if name == "visit":
        # Rvisit: own trait (see prelude/engine2_model.rs MessageVisit); a different regex text opens a separate impl block
        ty_regex = ty_regex[:-1] + r"\s*$"
        kw["impl_sub"] = [(r"^impl<T: ('static \+ )?Message( \+ Clone \+ PartialEq)?>", r"impl<T: \1Message + MessageVisit\2>"), (r"\bMessage for\b", "MessageVisit for")]
    A(Fn(DATA, name, impl=ty_regex, mod="data", dyn=False, **kw))



# ====================================================================================================================================
# Leaves (u8, U16, U32, Vec<u8>, Check<T>): verified against the generic trait in unit engine; verified here AGAIN against the object-safe
# trait so that every `impl Message` of src/model/data.rs is proved for the trait the containers dispatch through (no impl is assumed):
# this is what discharges the NEW clauses (wf/rwf frame, E1) for the elements a container can hold.  Lemmas and hints: those of unit engine.
from specs.engine import CODEC_LEMMAS, VALUE_EQ_SPEC, PAYLOAD_SPEC, PAYLOAD_AXIOM, U8_READ, U16_READ, U32_READ, VEC_READ, U16_MORE, U32_MORE, CHECK_MORE
A(Item(DATA, "enum", "Value", mod="data", sub=[(r"#\[derive\(Copy, Clone\)\]", "#[verifier::allow(autoderive_clone_without_spec)]\n#[derive(Copy, Clone)]")]))
A(Item(DATA, "type", "U16", mod="data"))
A(Item(DATA, "type", "U32", mod="data"))
A(Item(DATA, "struct", "Check", mod="data"))
A(Raw("    pub open spec fn val(&self) -> Type { match *self { Value::BE(e) => e, Value::LE(e) => e } }\n", mod="data", name="value_val", file=DATA, impl=r"^impl<Type: Copy \+ PartialEq> Value<Type>$"))
A(Fn(DATA, "inner", impl=r"^impl<Type: Copy \+ PartialEq> Value<Type>$", mod="data", dyn=False, props=["C18"], ensures=["r == self.val()"]))
A(CODEC_LEMMAS)
A(VALUE_EQ_SPEC)
A(Fn(DATA, "eq", impl=r"PartialEq for Value<Type>$", mod="data", props=["C18"]))
A(PAYLOAD_SPEC)
A(PAYLOAD_AXIOM)
A(Fn(DATA, "new", impl=r"^impl<T> Check<T>$", mod="data", dyn=False, props=["C18"], ensures=["r.value == value"]))


def leaf(ty_regex, label, mv, wf="true", rwf="true", extra_read=None, more=None):
    A(impl_specs(ty_regex, label, mv, wf, rwf))
    for name in ("write", "read", "length", "options", "visit"):
        kw = dict((more or {}).get(name, {}))
        if name == "read" and extra_read:
            kw["ensures"] = extra_read
        M(ty_regex, name, **kw)


leaf(r"Message for u8$", "u8", "MV::U8(*self)", extra_read=U8_READ)
leaf(r"Message for U16$", "U16", "match *self { Value::BE(v) => MV::U16(v, false), Value::LE(v) => MV::U16(v, true) }", extra_read=U16_READ, more=U16_MORE)
leaf(r"Message for U32$", "U32", "match *self { Value::BE(v) => MV::U32(v, false), Value::LE(v) => MV::U32(v, true) }", extra_read=U32_READ, more=U32_MORE)
leaf(r"Message for Vec<u8>$", "Vec", "MV::Bytes(self@)", extra_read=VEC_READ)
leaf(r"Message for Check<T>$", "Check", "MV::Check(Box::new(self.value.mv()))", wf="self.value.wf()", rwf="self.value.rwf()", more=CHECK_MORE)

# ====================================================================================================================================
# Option<T> (leaf, verified against the generic trait in unit engine; Array::read goes through it, so it is verified here against the
# object-safe trait too, with the two extra clauses Array::read needs)
OPT = r"Message for Option<T>$"
A(impl_specs(OPT, "Option",
             "MV::Opt(match *self { Some(v) => Some(Box::new(v.mv())), None => None })",
             "match *self { Some(v) => v.wf(), None => true }",
             "match *self { Some(v) => v.rwf() && same_shape(v.mv(), v.mv()), None => true }"))
M(OPT, "write")
M(OPT, "read",
  ensures=[("C18", "never-fails", "r is Ok"),
           ("C18", "some-consumed", "(*final(self)) is Some ==> (*old(self)) is Some && same_shape((*old(self))->Some_0.mv(), (*final(self))->Some_0.mv()) "
                                    "&& old(reader).rest().len() >= final(reader).rest().len() + min_wire_len((*old(self))->Some_0.mv())")],
  pre="let ghost m0 = self.mv(); proof { lemma_suffix_refl(reader.rest()); }",
  hints=[(r"Ok\(\(\)\)", 1, "proof { if let MV::Opt(Some(b0)) = m0 { if let MV::Opt(Some(b1)) = self.mv() { lemma_same_shape_right_refl(*b0, *b1); } } }", "before")])
M(OPT, "length")
M(OPT, "options")
M(OPT, "visit")

# ====================================================================================================================================
# Trame = Vec<Box<dyn Message>>
TRAME = r"Message for Trame$"
A(impl_specs(TRAME, "Trame",
             "MV::Trame(trame_view(self@))",
             "forall|i: int| 0 <= i < self@.len() ==> (#[trigger] self@[i]).wf()",
             "forall|i: int| 0 <= i < self@.len() ==> (#[trigger] self@[i]).rwf() && same_shape(self@[i].mv(), self@[i].mv())"))
M(TRAME, "write", nloops=1,
  pre="let ghost tv = trame_view(self@);",
  hints=[(r"(?<=for v in )self", 1, "it:", "at"),
         (r"v\.write\(writer\)\?;", 1, "proof { assert(tv[it.index@ as int] == v.mv()); } let ghost w0 = writer.written();", "before"),
         (r"v\.write\(writer\)\?;", 1, "proof { assert(w0 + ser_seq_from(tv, it.index@ as int) =~= writer.written() + ser_seq_from(tv, it.index@ + 1)); }")],
  loops={1: """invariant tv == trame_view(self@), self.wf(),
            old(writer).written() + ser_seq_from(tv, 0) == writer.written() + ser_seq_from(tv, it.index@ as int),
            is_prefix(old(writer).written(), writer.written()),
            old(writer).infallible() ==> writer.infallible(),"""})
M(TRAME, "read", nloops=1,
  body_sub=[(r"for v in self \{", "let mut __i: usize = 0; while __i < self.len() { let v = &mut self[__i]; __i += 1;")],
  pre="let ghost tv0 = trame_view(self@); let ghost r0 = reader.rest(); proof { lemma_suffix_refl(r0); broadcast use lemma_suffix_trans_b; }",
  loops={1: """invariant __i <= self@.len(), self@.len() == old(self)@.len(), tv0 == trame_view(old(self)@), r0 == old(reader).rest(),
            is_suffix(reader.rest(), r0),
            forall|k: int| 0 <= k < self@.len() ==> same_shape(#[trigger] tv0[k], self@[k].mv()),
            forall|k: int| 0 <= k < self@.len() ==> (#[trigger] self@[k]).wf(),
            forall|k: int| 0 <= k < self@.len() ==> (#[trigger] self@[k]).rwf() && same_shape(self@[k].mv(), self@[k].mv()),
            forall|k: int| __i <= k < self@.len() ==> (#[trigger] self@[k]).mv() == tv0[k],
            (is_static(MV::Trame(tv0)) || is_plain(MV::Trame(tv0))) ==> r0 == ser_seq_pre(trame_view(self@), __i as int) + reader.rest(),
            is_static(MV::Trame(tv0)) ==> ser_seq_pre(trame_view(self@), __i as int).len() == ser_seq_pre(tv0, __i as int).len(),
            arrays_empty(MV::Trame(tv0)) ==> ser_seq_pre(trame_view(self@), __i as int).len() + reader.rest().len() <= r0.len(),
        decreases self@.len() - __i"""},
  hints=[(r"let mut __i: usize = 0;", 1, "proof { assert forall|k: int| 0 <= k < self@.len() implies same_shape(#[trigger] tv0[k], self@[k].mv()) by { assert(self@[k].rwf()); } }", "atend"),
         (r"let v = &mut self\[__i\];", 1, "let ghost s1 = self@; let ghost j = __i as int; proof { assert(s1[j].rwf() && s1[j].wf() && s1[j].mv() == tv0[j]); }", "at"),
         (r"__i \+= 1;", 1, "let ghost rb = reader.rest(); proof { broadcast use lemma_suffix_trans_b; }", "atend"),
         (r"v\.read\(reader\)\?;", 1, """proof {
                let tv1 = trame_view(s1); let tv2 = trame_view(self@);
                assert(tv2[j] == self@[j].mv());
                lemma_seq_pre_local(tv1, tv2, j);
                lemma_same_shape_right_refl(tv0[j], tv2[j]);
                assert(ser_seq_pre(tv2, j + 1) == ser_seq_pre(tv2, j) + ser(tv2[j]));
                if is_static(MV::Trame(tv0)) {
                    assert(is_static(tv0[j]));
                    assert(rb =~= rb.take(ser(tv0[j]).len() as int) + rb.skip(ser(tv0[j]).len() as int));
                    assert(r0 =~= ser_seq_pre(tv2, j + 1) + reader.rest());
                } else if is_plain(MV::Trame(tv0)) {
                    assert(is_plain(tv0[j]));
                    assert(r0 =~= ser_seq_pre(tv2, j + 1) + reader.rest());
                }
           }"""),
         (r"Ok\(\(\)\)", 1, """proof { let tv2 = trame_view(self@); lemma_seq_split(tv2, tv2.len() as int); lemma_seq_split(tv0, tv0.len() as int);
                 assert(ser_seq_pre(tv2, tv2.len() as int) + Seq::<u8>::empty() =~= ser_seq_pre(tv2, tv2.len() as int));
                 assert(ser_seq_pre(tv0, tv0.len() as int) + Seq::<u8>::empty() =~= ser_seq_pre(tv0, tv0.len() as int));
                 if is_static(MV::Trame(tv0)) { let n = ser(MV::Trame(tv0)).len() as int; assert(r0.take(n) =~= ser(MV::Trame(tv2))); assert(r0.skip(n) =~= reader.rest()); } }""", "before")])
M(TRAME, "length", nloops=1,
  pre="let ghost tv = trame_view(self@);",
  hints=[(r"(?<=for v in )self", 1, "it:", "at"),
         (r"sum \+= v\.length\(\);", 1, "proof { assert(tv[it.index@ as int] == v.mv()); }", "before")],
  loops={1: """invariant tv == trame_view(self@), self.wf(),
            ser_seq_from(tv, 0).len() == sum + ser_seq_from(tv, it.index@ as int).len(),
            ser_seq_from(tv, 0).len() <= u64::MAX,"""})
M(TRAME, "options")
M(TRAME, "visit")


# ====================================================================================================================================
# Component = IndexMap<String, Box<dyn Message>>
COMP = r"Message for Component$"
ITER = (r"for \(name, value\) in self\.iter\(\) \{",
        "let mut __i: usize = 0; while __i < self.len() { let (name, value) = self.get_index(__i).unwrap(); __i += 1;")
A(impl_specs(COMP, "Component",
             "MV::Comp(self.fields())",
             "forall|i: int| 0 <= i < self.entries().len() ==> (#[trigger] self.entries()[i]).1.wf()",
             "forall|i: int| 0 <= i < self.entries().len() ==> (#[trigger] self.entries()[i]).1.rwf() && same_shape(self.entries()[i].1.mv(), self.entries()[i].1.mv())"))
M(COMP, "write", nloops=1, body_sub=[ITER],
  pre="let ghost f = self.fields();",
  loops={1: """invariant __i <= self.entries().len(), self.wf(), f == self.fields(),
            old(writer).written() + ser_fields_from(f, 0, Set::empty()) == writer.written() + ser_fields_from(f, __i as int, filtering_key.s()),
            is_prefix(old(writer).written(), writer.written()),
            old(writer).infallible() ==> writer.infallible(),
        decreases self.entries().len() - __i"""},
  hints=[(r"__i \+= 1;", 1, "let ghost j = __i as int - 1; let ghost w0 = writer.written(); let ghost s0 = filtering_key.s(); proof { assert(f[j] == (name@, value.mv())); assert(self.entries()[j].1.wf()); }", "atend"),
         (r"filtering_key\.insert\(field\);\s*\n\s*\}", 1,
          "proof { assert(w0 + ser_fields_from(f, j, s0) =~= writer.written() + ser_fields_from(f, j + 1, filtering_key.s())); }")])
M(COMP, "length", nloops=1, body_sub=[ITER],
  pre="let ghost f = self.fields();",
  loops={1: """invariant __i <= self.entries().len(), self.wf(), f == self.fields(),
            ser_fields_from(f, 0, Set::empty()).len() == sum + ser_fields_from(f, __i as int, filtering_key.s()).len(),
            ser_fields_from(f, 0, Set::empty()).len() <= u64::MAX,
        decreases self.entries().len() - __i"""},
  hints=[(r"__i \+= 1;", 1, "let ghost j = __i as int - 1; let ghost s0 = filtering_key.s(); proof { assert(f[j] == (name@, value.mv())); assert(self.entries()[j].1.wf()); }", "atend")])
M(COMP, "read", nloops=1,
  # how a pending MessageOption::Size(name, n) is honoured (asserted property obligations, not hints)
  claims=[(r"value\.read\(reader\)\?;", 1, "proof { assert(!fpre_sizes(f1, j).contains_key(name@)); }", "before", "C18,C10,C06,C05,C03", "parent-stream-only-without-pending-size"),
          (r"reader\.read_exact\(&mut local\)\?;", 1, "proof { assert(local@.len() == fpre_sizes(f1, j)[name@]); }", "after", "C18,C10,C06,C05,C03", "sized-field-reads-exactly-its-size"),
          (r"MessageOption::None => \(\)\s*\n\s*\}", 1, "proof { assert(dynamic_size.m() =~= fpre_sizes(self.fields(), j + 1)); }", "after", "C18,C10,C06,C05,C03", "size-option-recorded"),
          (r"Ok\(\(\)\)", 1, "proof { let n = self.fields().len() as int; assert(cons.len() == n && sized_exact(self.fields(), cons, n) && isum(cons, n) == old(reader).rest().len() - reader.rest().len()); }", "before", "C18,C10,C06,C05,C03", "sized-fields-consume-exactly-their-size")],
  body_sub=[(r"for \(name, value\) in self\.into_iter\(\) \{",
             "let mut __i: usize = 0; while __i < self.len() { let (name, value) = self.get_index_mut(__i).unwrap(); __i += 1;"),
            (r"value\.read\(&mut Cursor::new\(local\)\)", "value.read(dyn_reader(&mut Cursor::new(local)))")],
  pre="let ghost f0 = self.fields(); let ghost e0 = self.entries(); let ghost r0 = reader.rest(); let ghost mut cons: Seq<int> = Seq::empty(); proof { lemma_suffix_refl(r0); broadcast use lemma_suffix_trans_b; }",
  loops={1: """invariant __i <= self.entries().len(), self.entries().len() == e0.len(), f0 == old(self).fields(), e0 == old(self).entries(), r0 == old(reader).rest(),
            is_suffix(reader.rest(), r0),
            forall|k: int| 0 <= k < e0.len() ==> (#[trigger] self.entries()[k]).0 == e0[k].0,
            forall|k: int| 0 <= k < e0.len() ==> same_shape(f0[k].1, (#[trigger] self.entries()[k]).1.mv()),
            forall|k: int| 0 <= k < e0.len() ==> (#[trigger] self.entries()[k]).1.wf() && self.entries()[k].1.rwf() && same_shape(self.entries()[k].1.mv(), self.entries()[k].1.mv()),
            forall|k: int| __i <= k < e0.len() ==> (#[trigger] self.entries()[k]).1.mv() == f0[k].1,
            filtering_key.s() == fpre_skip(self.fields(), __i as int),
            dynamic_size.m() =~= fpre_sizes(self.fields(), __i as int),
            cons.len() == __i, isum(cons, __i as int) == r0.len() - reader.rest().len(), sized_exact(self.fields(), cons, __i as int),
            arrays_empty(MV::Comp(f0)) ==> fpre_bytes(self.fields(), __i as int).len() + reader.rest().len() <= r0.len(),
            no_dyn_before(f0, __i as int) ==> filtering_key.s() =~= Set::<Seq<char>>::empty() && dynamic_size.m() =~= Map::<Seq<char>, usize>::empty(),
            no_dyn_before(f0, __i as int) ==> (r0.len() - reader.rest().len()) + min_fields_from(f0, __i as int) >= min_fields_from(f0, 0),
            !no_dyn_before(f0, __i as int) ==> r0.len() - reader.rest().len() >= min_fields_from(f0, 0),
            (is_static(MV::Comp(f0)) || is_plain(MV::Comp(f0))) ==> no_dyn_before(f0, __i as int) && r0 == fpre_bytes(self.fields(), __i as int) + reader.rest(),
            is_static(MV::Comp(f0)) ==> fpre_bytes(self.fields(), __i as int).len() == fpre_bytes(f0, __i as int).len() && fpre_skip(f0, __i as int) =~= Set::<Seq<char>>::empty(),
        decreases self.entries().len() - __i"""},
  hints=[(r"let mut __i: usize = 0;", 1, """proof { assert(f0.len() == e0.len());
                assert forall|k: int| 0 <= k < e0.len() implies same_shape(f0[k].1, (#[trigger] self.entries()[k]).1.mv()) by { assert(e0[k].1.rwf()); } }""", "atend"),
         (r"let \(name, value\) = self\.get_index_mut", 1, """let ghost e1 = self.entries(); let ghost f1 = self.fields(); let ghost j = __i as int; let ghost rb = reader.rest(); let ghost fk1 = filtering_key.s();
                proof { assert(f1[j] == (e1[j].0@, e1[j].1.mv())); assert(e1[j].1.wf() && e1[j].1.rwf() && e1[j].1.mv() == f0[j].1); assert(e1[j].0 == e0[j].0); }""", "at"),
         (r"__i \+= 1;", 1, "proof { broadcast use lemma_suffix_trans_b; assert(name@ == f1[j].0); assert(value.mv() == f1[j].1); }", "atend"),
         (r"continue;", 1, """proof { assert(self.entries() =~= e1); assert(self.fields() =~= f1); assert(fpre_skip(f1, j + 1) == fpre_skip(f1, j)); assert(fpre_bytes(f1, j + 1) == fpre_bytes(f1, j));
                assert(fpre_sizes(f1, j + 1) == fpre_sizes(f1, j));
                assert(!no_dyn_before(f0, j)); assert(!no_dyn_before(f0, j + 1));
                lemma_isum_push(cons, 0, j); cons = cons.push(0); }""", "before"),
         (r"match value\.options\(\) \{", 1, """let ghost vm = value.mv();
                proof {
                    assert(same_shape(f1[j].1, vm) && value.wf() && value.rwf());
                    lemma_same_shape_right_refl(f1[j].1, vm);
                    assert(is_suffix(reader.rest(), rb));
                    assert(fpre_sizes(f1, j).contains_key(name@) ==> rb.len() - reader.rest().len() == fpre_sizes(f1, j)[name@]);
                    if no_dyn_before(f0, j) { assert(rb.len() >= reader.rest().len() + min_wire_len(f0[j].1)); }
                    if arrays_empty(MV::Comp(f0)) { assert(arrays_empty(f0[j].1)); assert(ser(vm).len() + reader.rest().len() <= rb.len()); }
                    if is_static(MV::Comp(f0)) {
                        assert(is_static(f0[j].1));
                        assert(rb =~= rb.take(ser(f0[j].1).len() as int) + rb.skip(ser(f0[j].1).len() as int));
                        assert(rb == ser(vm) + reader.rest());
                    } else if is_plain(MV::Comp(f0)) {
                        assert(is_plain(f0[j].1));
                        assert(rb == ser(vm) + reader.rest());
                    }
                }""", "before"),
         (r"MessageOption::None => \(\)\s*\n\s*\}", 1, """proof {
                    let f2 = self.fields();
                    assert(self.entries() =~= e1.update(j, (e1[j].0, self.entries()[j].1)));
                    assert(f2 =~= f1.update(j, (f1[j].0, vm)));
                    lemma_fpre_local(f1, f2, j);
                    assert(fpre_skip(f2, j + 1) == (match opt_of(vm) { OV::Skip(k) => fpre_skip(f2, j).insert(k), _ => fpre_skip(f2, j) }));
                    assert(fpre_bytes(f2, j + 1) == fpre_bytes(f2, j) + ser(vm));
                    assert(fpre_sizes(f2, j + 1) == (match opt_of(vm) { OV::Size(k, n) => fpre_sizes(f2, j).insert(k, n), _ => fpre_sizes(f2, j) }));
                    lemma_isum_push(cons, rb.len() - reader.rest().len(), j);
                    let cons1 = cons; cons = cons.push(rb.len() - reader.rest().len());
                    assert forall|k: int| 0 <= k < j + 1 && !fpre_skip(f2, k).contains(f2[k].0) && fpre_sizes(f2, k).contains_key(f2[k].0) implies #[trigger] cons[k] == fpre_sizes(f2, k)[f2[k].0] by {
                        if k < j { lemma_fpre_local(f1, f2, k); assert(f2[k] == f1[k]); assert(cons[k] == cons1[k]); }
                    }
                    if no_dyn_before(f0, j) {
                        if f0[j].1 is Dyn { assert(!no_dyn_before(f0, j + 1)); } else { assert(!(vm is Dyn)); assert(no_dyn_before(f0, j + 1)); }
                    } else { assert(!no_dyn_before(f0, j + 1)); }
                    if is_static(MV::Comp(f0)) || is_plain(MV::Comp(f0)) {
                        assert(!(f0[j].1 is Dyn));
                        assert(r0 =~= fpre_bytes(f2, j + 1) + reader.rest());
                    }
                    if is_static(MV::Comp(f0)) { assert(fpre_bytes(f0, j + 1) == fpre_bytes(f0, j) + ser(f0[j].1)); }
                }"""),
         (r"Ok\(\(\)\)", 1, """proof { let f2 = self.fields(); let n = f2.len() as int;
                 lemma_fields_split(f2, n); lemma_fields_split(f0, n);
                 assert(fpre_bytes(f2, n) + Seq::<u8>::empty() =~= fpre_bytes(f2, n));
                 assert(fpre_bytes(f0, n) + Seq::<u8>::empty() =~= fpre_bytes(f0, n));
                 assert(same_shape(MV::Comp(f0), MV::Comp(f2)));
                 if is_static(MV::Comp(f0)) { let m = ser(MV::Comp(f0)).len() as int; assert(r0.take(m) =~= ser(MV::Comp(f2))); assert(r0.skip(m) =~= reader.rest()); } }""", "before")])
M(COMP, "options")
M(COMP, "visit")


# ====================================================================================================================================
# DynOption<T>
A(Item(DATA, "struct", "DynOption", mod="data", sub=[(r"Box<DynOptionFnSend<T>>", "BoxedFilter<T>")]))
A(Raw(r"""
/// the option the closure yields for `t` (well defined when the closure yields ONE option per value: filter_det)
pub open spec fn ov_possible<T>(f: BoxedFilter<T>, t: &T, o: OV) -> bool {
    exists|mo: MessageOption| #[trigger] f.ens(t, mo) && mo.ov() == o
}
pub open spec fn filter_ov<T>(f: BoxedFilter<T>, t: &T) -> OV {
    choose|o: OV| ov_possible(f, t, o)
}
pub open spec fn filter_det<T>(f: BoxedFilter<T>) -> bool {
    forall|t: &T, a: MessageOption, b: MessageOption| #[trigger] f.ens(t, a) && #[trigger] f.ens(t, b) ==> a.ov() == b.ov()
}
pub proof fn lemma_filter_ov<T>(f: BoxedFilter<T>, t: &T, mo: MessageOption)
    requires filter_det(f), f.ens(t, mo)
    ensures filter_ov(f, t) == mo.ov()
{
    let o = filter_ov(f, t);
    assert(ov_possible(f, t, mo.ov()));
    assert(ov_possible(f, t, o));
    let m3 = choose|m3: MessageOption| #[trigger] f.ens(t, m3) && m3.ov() == o;
}
""", mod="data", name="dynoption_specs"))
DYNO = r"Message for DynOption<T>$"
A(Fn(DATA, "new", impl=r"^impl<T> DynOption<T>$", mod="data", dyn=False, props=["C18"],
     impl_sub=[(r"^impl<T> DynOption<T>", "impl<T: Message> DynOption<T>")],
     body_sub=[(r"Box::new\(filter\)", "BoxedFilter::new(filter)")],
     requires=["forall|t: &T| same_shape(current.mv(), t.mv()) ==> #[trigger] call_requires(filter, (t,))"],
     ensures=[("C18", "view", "r.mv() matches MV::Dyn(b, o) && *b == current.mv()"),
              ("C18", "option-of-current", "forall|mo: MessageOption| (forall|t: &T, a: MessageOption, b: MessageOption| call_ensures(filter, (t,), a) && call_ensures(filter, (t,), b) ==> a.ov() == b.ov()) "
                                           "&& #[trigger] call_ensures(filter, (&current,), mo) ==> opt_of(r.mv()) == mo.ov()"),
              ("C18", "wf", "current.wf() && same_shape(current.mv(), current.mv()) && (forall|t: &T, a: MessageOption, b: MessageOption| call_ensures(filter, (t,), a) && call_ensures(filter, (t,), b) ==> a.ov() == b.ov()) ==> r.wf()"),
              ("C18", "rwf", "current.rwf() && same_shape(current.mv(), current.mv()) ==> r.rwf()")],
     post="""proof { if (forall|t: &T, a: MessageOption, b: MessageOption| call_ensures(filter, (t,), a) && call_ensures(filter, (t,), b) ==> a.ov() == b.ov()) {
                 assert(filter_det(r.filter));
                 assert forall|mo: MessageOption| #[trigger] call_ensures(filter, (&current,), mo) implies opt_of(r.mv()) == mo.ov() by { lemma_filter_ov(r.filter, &r.inner, mo); }
             } }"""))
A(impl_specs(DYNO, "DynOption",
             "MV::Dyn(Box::new(self.inner.mv()), filter_ov(self.filter, &self.inner))",
             "self.inner.wf() && self.filter.req(&self.inner) && filter_det(self.filter) && forall|t: &T| same_shape(self.inner.mv(), t.mv()) ==> #[trigger] self.filter.req(t)",
             "self.inner.rwf() && same_shape(self.inner.mv(), self.inner.mv())"))
M(DYNO, "write")
M(DYNO, "read",
  pre="let ghost m0 = self.inner.mv();",
  post="""proof { if r is Ok {
              lemma_same_shape_right_refl(m0, self.inner.mv());
              assert forall|t: &T| same_shape(self.inner.mv(), t.mv()) implies #[trigger] self.filter.req(t) by { lemma_same_shape_trans(m0, self.inner.mv(), t.mv()); }
          } }""")
M(DYNO, "length")
M(DYNO, "options",
  body_sub=[(r"\(self\.filter\)\(&self\.inner\)", "self.filter.call(&self.inner)")],
  post="proof { lemma_filter_ov(self.filter, &self.inner, r); }")
M(DYNO, "visit")

# ====================================================================================================================================
# to_vec
A(Fn(DATA, "to_vec", mod="data", dyn=False, props=["C18"],
     body_sub=[(r"message\.write\(&mut stream\)", "message.write(dyn_writer(&mut stream))")],
     requires=["message.wf()"],
     ensures=[("C18", "serialization", "r@ == ser(message.mv())")]))

# ====================================================================================================================================
# Array<T>
A(Item(DATA, "struct", "Array", mod="data", sub=[(r"Box<ArrayFnSend<T>>", "BoxedFactory<T>")]))
A(Raw(r"""
/// the layout of what the factory builds (well defined when all its results have ONE layout)
pub open spec fn proto_possible<T: Message>(f: BoxedFactory<T>, p: MV) -> bool {
    exists|a: T| #[trigger] f.ens(a) && a.mv() == p
}
pub open spec fn arr_proto<T: Message>(f: BoxedFactory<T>) -> MV {
    choose|p: MV| proto_possible(f, p)
}
pub open spec fn factory_one_layout<T: Message>(f: BoxedFactory<T>) -> bool {
    forall|a: T, b: T| #[trigger] f.ens(a) && #[trigger] f.ens(b) ==> a.mv() == b.mv()
}
/// what Array::read needs of the factory: callable, one layout, results well formed and readable, at least one byte per element
pub open spec fn factory_ok<T: Message>(f: BoxedFactory<T>) -> bool {
    &&& f.req()
    &&& factory_one_layout(f)
    &&& forall|a: T| #[trigger] f.ens(a) ==> a.wf() && a.rwf() && same_shape(a.mv(), a.mv())
    &&& min_wire_len(arr_proto(f)) > 0
}
pub proof fn lemma_arr_proto<T: Message>(f: BoxedFactory<T>, a: T)
    requires factory_one_layout(f), f.ens(a)
    ensures arr_proto(f) == a.mv()
{
    let p = arr_proto(f);
    assert(proto_possible(f, a.mv()));
    assert(proto_possible(f, p));
    let c = choose|c: T| #[trigger] f.ens(c) && c.mv() == p;
}
""", mod="data", name="array_specs"))
ARRI = r"^impl<T: Message> Array<T>$"
A(Fn(DATA, "new", impl=ARRI, mod="data", dyn=False, props=["C18"], expand=[],
     body_sub=[(r"Box::new\(factory\)", "BoxedFactory::new(factory)")],
     requires=["call_requires(factory, ())",
               "forall|a: T, b: T| #![auto] call_ensures(factory, (), a) && call_ensures(factory, (), b) ==> a.mv() == b.mv()"],
     ensures=[("C18", "view", "r.mv() matches MV::Arr(s, p) && s.len() == 0 && (forall|a: T| #[trigger] call_ensures(factory, (), a) ==> a.mv() == *p)"),
              ("C18", "wf", "r.wf()"),
              ("C18", "rwf", "(forall|a: T| #[trigger] call_ensures(factory, (), a) ==> a.wf() && a.rwf() && same_shape(a.mv(), a.mv()) && min_wire_len(a.mv()) > 0) "
                             "&& (exists|a: T| call_ensures(factory, (), a)) ==> r.rwf()")],
     post="""proof { assert(factory_one_layout(r.factory));
                 assert forall|a: T| #[trigger] call_ensures(factory, (), a) implies a.mv() == arr_proto(r.factory) by { lemma_arr_proto(r.factory, a); }
                 if exists|a: T| call_ensures(factory, (), a) { let a = choose|a: T| call_ensures(factory, (), a); lemma_arr_proto(r.factory, a); } }"""))
A(Fn(DATA, "from_trame", impl=ARRI, mod="data", dyn=False, props=["C18"],
     body_sub=[(r"Box::new\(\|\|", "BoxedFactory::new(||")],
     closures={1: dict(params="", ret="-> (never: T)", spec="requires false")},
     ensures=[("C18", "view", "r.mv() matches MV::Arr(s, p) && s == trame_view(inner@)"),
              ("C18", "wf", "inner.wf() ==> r.wf()")]))
A(Fn(DATA, "inner", impl=ARRI, mod="data", dyn=False, props=["C18"],
     ensures=[("C18", "view", "self.mv() matches MV::Arr(s, p) && s == trame_view(r@)"),
              ("C18", "wf", "self.wf() ==> r.wf()")]))
A(Fn(DATA, "as_ref", impl=r"AsRef<Trame> for Array<T>$", mod="data", dyn=False, props=["C18"],
     impl_sub=[(r"^impl<T> AsRef", "impl<T: Message> AsRef")],
     ensures=[("C18", "view", "self.mv() matches MV::Arr(s, p) && s == trame_view(r@)"),
              ("C18", "wf", "self.wf() ==> r.wf()")]))
ARR = r"Message for Array<T>$"
A(impl_specs(ARR, "Array",
             "MV::Arr(trame_view(self.inner@), Box::new(arr_proto(self.factory)))",
             "self.inner.wf()",
             "factory_ok(self.factory) && forall|i: int| 0 <= i < self.inner@.len() ==> same_shape(arr_proto(self.factory), (#[trigger] self.inner@[i]).mv())"))
M(ARR, "write")
M(ARR, "read", nloops=1,
  # an array is read "until the end": the loop is left only at an element that could not be read (every exit of the loop)
  claims=[(r"break;", 0, "proof { assert(element is None); }", "before", "C18,C10,C06,C05,C03", "array-read-stops-only-at-an-unreadable-element")],
  body_sub=[(r"\(self\.factory\)\(\)", "self.factory.call()"), (r"self\.inner\.push\(Box::new\(e\)\)", "self.inner.push(box_dyn(Box::new(e)))")],
  pre="let ghost r0 = reader.rest(); let ghost p = arr_proto(self.factory); let ghost n0 = self.inner@.len(); proof { lemma_suffix_refl(r0); broadcast use lemma_suffix_trans_b; }",
  loops={1: """invariant self.factory == old(self).factory, p == arr_proto(self.factory), factory_ok(self.factory), r0 == old(reader).rest(), n0 == old(self).inner@.len(),
            self.inner.wf(), self.inner@.len() >= n0,
            forall|i: int| 0 <= i < self.inner@.len() ==> same_shape(p, (#[trigger] self.inner@[i]).mv()),
            is_suffix(reader.rest(), r0),
            arrays_empty(old(self).mv()) ==> ser_seq_pre(trame_view(self.inner@), self.inner@.len() as int).len() + reader.rest().len() <= r0.len(),
        decreases reader.rest().len()"""},
  hints=[(r"let mut element = Some\(self\.factory\.call\(\)\);", 1,
          "let ghost rb = reader.rest(); let ghost tvb = trame_view(self.inner@); proof { broadcast use lemma_suffix_trans_b; lemma_arr_proto(self.factory, element->Some_0); assert(element.mv() == MV::Opt(Some(Box::new(p)))); assert(arrays_empty(old(self).mv()) ==> arrays_empty(element.mv())); }"),
         (r"self\.inner\.push\(box_dyn\(Box::new\(e\)\)\)", 1, """; proof {
                let tv2 = trame_view(self.inner@); let n = tvb.len() as int;
                assert(tv2[n] == e.mv());
                assert(tv2 =~= tvb.push(e.mv()));
                lemma_seq_pre_local(tvb, tv2, n);
                assert(ser_seq_pre(tv2, n + 1) == ser_seq_pre(tv2, n) + ser(tv2[n]));
           }""", "atend"),
         (r"Ok\(\(\)\)", 1, """proof { let tv2 = trame_view(self.inner@); lemma_seq_split(tv2, tv2.len() as int);
                 assert(ser_seq_pre(tv2, tv2.len() as int) + Seq::<u8>::empty() =~= ser_seq_pre(tv2, tv2.len() as int)); }""", "before")])
M(ARR, "length")
M(ARR, "options")
M(ARR, "visit")


# ====================================================================================================================================
# non-vacuity: the side conditions wf()/rwf() are satisfiable and the contracts compose -- a PROVED exec function of this unit (not of /repo):
# build a Trame [u8, U16::LE], serialize it into a Cursor (never fails: E1), read the bytes back into a fresh layout of the same shape
A(Raw(r"""
pub fn demo_roundtrip() -> (r: Vec<u8>)
    ensures r@ == seq![7u8, 0x34u8, 0x12u8]
{
    let mut t: Trame = Vec::new();
    t.push(box_dyn(Box::new(7u8)));
    t.push(box_dyn(Box::new(U16::LE(0x1234))));
    assert(t.wf() && t.rwf());
    let ghost tv = trame_view(t@);
    assert(tv =~= seq![MV::U8(7), MV::U16(0x1234, true)]);
    let mut stream = Cursor::new(Vec::new());
    let w = t.write(dyn_writer(&mut stream));
    proof {
        reveal_with_fuel(ser_seq_from, 4);
        assert(0x1234u16 & 0xff == 0x34 && (0x1234u16 >> 8) & 0xff == 0x12) by(bit_vector);
        assert(ser(tv[0]) =~= seq![7u8]);
        assert(ser(tv[1]) =~= seq![0x34u8, 0x12u8]);
        assert(ser_seq_from(tv, 2) =~= Seq::<u8>::empty());
        assert(ser_seq_from(tv, 1) =~= seq![0x34u8, 0x12u8]);
        assert(ser_seq_from(tv, 0) =~= seq![7u8] + seq![0x34u8, 0x12u8]);
        assert(ser(t.mv()) =~= seq![7u8, 0x34u8, 0x12u8]);
        assert(w is Ok);
    }
    let bytes = stream.into_inner();
    assert(bytes@ =~= seq![7u8, 0x34u8, 0x12u8]);
    let mut t2: Trame = Vec::new();
    t2.push(box_dyn(Box::new(0u8)));
    t2.push(box_dyn(Box::new(U16::LE(0))));
    let ghost tv2 = trame_view(t2@);
    assert(tv2 =~= seq![MV::U8(0), MV::U16(0, true)]);
    assert(is_static(t2.mv())) by { assert forall|i: int| 0 <= i < tv2.len() implies is_static(#[trigger] tv2[i]) by { if i == 0 {} else { assert(i == 1); } } }
    let ghost m2 = t2.mv();
    let mut back = Cursor::new(bytes.clone());
    let rr = t2.read(dyn_reader(&mut back));
    proof {
        if rr is Ok {
            reveal_with_fuel(ser_seq_from, 4);
            assert(0u16 & 0xff == 0 && (0u16 >> 8) & 0xff == 0) by(bit_vector);
            assert(ser(tv2[0]) =~= seq![0u8]);
            assert(ser(tv2[1]) =~= seq![0u8, 0u8]);
            assert(ser_seq_from(tv2, 2) =~= Seq::<u8>::empty());
            assert(ser_seq_from(tv2, 1) =~= seq![0u8, 0u8]);
            assert(ser_seq_from(tv2, 0) =~= seq![0u8] + seq![0u8, 0u8]);
            assert(ser(m2) =~= seq![0u8, 0u8, 0u8]);
            assert(ser(t2.mv()) =~= seq![7u8, 0x34u8, 0x12u8]);
        }
    }
    bytes
}
""", mod="data", name="demo_roundtrip"))

UNIT = _CheckedUnit("engine2", ["base.rs", "collections.rs", "engine2_model.rs"], items, uses={"data": ["use vstd::std_specs::cmp::PartialEqSpec;"]},
            doc="container implementations of src/model/data.rs against the engine contract of prelude/model.rs")
