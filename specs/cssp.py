"""unit cssp: src/nla/cssp.rs cssp_connect — the CredSSP exchange over an established TLS link.
C01 (credentials only after the server proved the session key over THIS link's certificate; nothing after a failed validation),
C17 (credentials emptied in restricted-admin mode, handed only to the sealing function), C07 (hostile TSRequest bytes), C03 (message order)."""
from vx.spec import *
from specs import frame as F

CSSP = "src/nla/cssp.rs"
LINK = F.LINK

items = [x for x in stubs_of(F.UNIT.items, "frame") if getattr(x, "mod", None) == "link"]
A = items.append
A(Stub(LINK, "get_peer_certificate", impl=r"Link<S>", mod="link", why="native-tls: peer_certificate() of the TLS session of this link",
       ensures=["r is Ok ==> self.tls()", "r is Ok && r->Ok_0 is Some ==> r->Ok_0->Some_0.key() == self.peer_key()"]))

A(Raw(r"""
/// src/nla/sspi.rs traits with their ghost contracts (the NTLM implementation is verified against them in unit ntlm)
pub trait GenericSecurityService {
    /// the token this context emits when sealing `data` in its current state
    spec fn seal_spec(&self, data: Seq<u8>) -> Seq<u8>;
    /// the plaintext this context accepts for the sealed token `data` in its current state (None: rejected)
    spec fn unseal_spec(&self, data: Seq<u8>) -> Option<Seq<u8>>;
    fn gss_wrapex(&mut self, data: &[u8]) -> (r: RdpResult<Vec<u8>>)
        ensures r is Ok ==> r->Ok_0@ == old(self).seal_spec(data@);
    fn gss_unwrapex(&mut self, data: &[u8]) -> (r: RdpResult<Vec<u8>>)
        ensures r is Ok ==> old(self).unseal_spec(data@) == Some(r->Ok_0@);
}
pub trait AuthenticationProtocol {
    spec fn domain_spec(&self) -> Seq<u8>;
    spec fn user_spec(&self) -> Seq<u8>;
    spec fn password_spec(&self) -> Seq<u8>;
    fn create_negotiate_message(&mut self) -> (r: RdpResult<Vec<u8>>);
    fn read_challenge_message(&mut self, request: &[u8]) -> (r: RdpResult<Vec<u8>>);
    fn build_security_interface(&self) -> (r: Box<dyn GenericSecurityService>);
    fn get_domain_name(&self) -> (r: Vec<u8>) ensures r@ == self.domain_spec();
    fn get_user_name(&self) -> (r: Vec<u8>) ensures r@ == self.user_spec();
    fn get_password(&self) -> (r: Vec<u8>) ensures r@ == self.password_spec();
}
""", mod="sspi", name="sspi_contracts"))

A(Raw(r"""
// ---------------- MS-CSSP TSRequest structures as abstract DER encoders / decoders (yasna + src/nla/asn1.rs: external, ASSUMED)
pub uninterp spec fn der_ts_request(nego: Seq<u8>) -> Seq<u8>;
pub uninterp spec fn der_ts_authenticate(nego: Seq<u8>, pub_key_auth: Seq<u8>) -> Seq<u8>;
pub uninterp spec fn der_ts_authinfo(auth_info: Seq<u8>) -> Seq<u8>;
pub uninterp spec fn der_ts_credentials(domain: Seq<u8>, user: Seq<u8>, password: Seq<u8>) -> Seq<u8>;
/// first negoToken of a TSRequest / pubKeyAuth of a TSRequest (None: not a well-formed TSRequest of that shape)
pub uninterp spec fn ts_first_nego_token(der: Seq<u8>) -> Option<Seq<u8>>;
pub uninterp spec fn ts_pub_key_auth(der: Seq<u8>) -> Option<Seq<u8>>;
/// the CredSSP exchange completed on a link whose trace went from w0 to w1: exactly the three client messages request / authenticate / authinfo
pub open spec fn credssp_done(w0: Seq<u8>, w1: Seq<u8>) -> bool {
    exists|n: Seq<u8>, c: Seq<u8>, a: Seq<u8>, b: Seq<u8>| #[trigger] (w0 + der_ts_request(n) + der_ts_authenticate(c, a) + der_ts_authinfo(b)) =~= w1
}
""", mod="cssp", name="cssp_der_specs"))
DER_WHY = "real body verified in unit csspder (post-parse logic, totality); DER itself (yasna crate, src/nla/asn1.rs) is the abstract der_decode / der_encode of prelude/asn1_cssp.rs, assumed to implement the MS-CSSP structures"
A(Stub(CSSP, "create_ts_request", mod="cssp", verified_in="csspder", why=DER_WHY, ensures=["r@ == der_ts_request(nego@)"]))
A(Stub(CSSP, "read_ts_server_challenge", mod="cssp", verified_in="csspder", why=DER_WHY, ensures=["r is Ok ==> ts_first_nego_token(stream@) == Some(r->Ok_0@)"]))
A(Stub(CSSP, "create_ts_authenticate", mod="cssp", verified_in="csspder", why=DER_WHY, ensures=["r@ == der_ts_authenticate(nego@, pub_key_auth@)"]))
A(Stub(CSSP, "read_public_certificate", mod="cssp", verified_in="csspder", why="real body verified in unit csspder; x509-parser crate is the stand-in parse_x509_der (may fail)",
       ensures=["r is Ok ==> der_cert_key(stream@) == Some(r->Ok_0.tbs_certificate.subject_pki.subject_public_key.data@)"]))
A(Stub(CSSP, "read_ts_validate", mod="cssp", verified_in="csspder", why=DER_WHY, ensures=["r is Ok ==> ts_pub_key_auth(request@) == Some(r->Ok_0@)"]))
A(Stub(CSSP, "create_ts_credentials", mod="cssp", verified_in="csspder", why=DER_WHY, ensures=["r@ == der_ts_credentials(domain@, user@, password@)"]))
A(Stub(CSSP, "create_ts_authinfo", mod="cssp", verified_in="csspder", why=DER_WHY, ensures=["r@ == der_ts_authinfo(auth_info@)"]))

KEY = "certificate.tbs_certificate.subject_pki.subject_public_key.data@"
EMPTY_OR = lambda v, f: "%s@ == (if restricted_admin_mode { Seq::<u8>::empty() } else { authentication_protocol.%s() })" % (v, f)

# ghost snapshots (declarations only) and proof aids. Hints are NOT property obligations; the claims below are.
# The snapshots are kept in hint entries of their own (no assertion inside) so that they survive a hint-free re-run.
HINTS = [
    (r"link\.write\(&negotiate_message\)\?;", 1, "let ghost w1 = link.written();"),
    (r"link\.write\(&negotiate_message\)\?;", 1, "proof { assert(is_prefix(wi, w1)); }"),
    (r"let client_challenge = ", 1, "let ghost cc = client_challenge@;"),
    # state of the security interface before the first wrap
    (r"let certificate = read_public_certificate", 1, "let ghost seal0 = |d: Seq<u8>| security_interface.seal_spec(d);"),
    # written bytes after the second message; unread input and state of the security interface before the second read / the unwrap
    (r"link\.write\(&challenge\)\?;", 1,
     "let ghost w2 = link.written(); let ghost rest0 = link.rest(); let ghost unseal0 = |d: Seq<u8>| security_interface.unseal_spec(d);"),
    (r"link\.write\(&challenge\)\?;", 1, "proof { assert(is_prefix(wi, w2)); }"),
    # state of the security interface before the second wrap; the three vectors (moved into create_ts_credentials by the next statement)
    (r"let credentials = ", 1,
     "let ghost seal2 = |d: Seq<u8>| security_interface.seal_spec(d); let ghost dom = domain@; let ghost usr = user@; let ghost pwd = password@;", "before"),
    # witnesses of the existential of `three-messages-credentials-last`
    (r"Ok\(\(\)\)", 1,
     """proof {
        let n = choose|n: Seq<u8>| negotiate_message@ == der_ts_request(n);
        let s1 = seal0(pk); let s2 = seal2(der_ts_credentials(dom, usr, pwd));
        assert(link.written() =~= wi + der_ts_request(n) + der_ts_authenticate(cc, s1) + der_ts_authinfo(s2));
        assert((der_ts_request(n) + der_ts_authenticate(cc, s1) + der_ts_authinfo(s2)) == (der_ts_request(n) + der_ts_authenticate(cc, s1) + der_ts_authinfo(s2)));
    }""", "before"),
]

# Every assertion inside a claim block is part of the claim (a failure of any of them is reported as a violation of the claim's properties);
# the leading assertions of a block are the steps of its own proof, the LAST one is the claim as stated in the task.
CLAIMS = [
    # 1. at the point where the credentials start to be built the unsealed reply is THIS link's certificate key + 1.
    #    key == peer_key(): get_peer_certificate (key() == peer_key()), to_der and read_public_certificate (both through der_cert_key),
    #    frame4 of the write / read in between. Arithmetic: BigUint from_bytes_le (le_nat), new(vec![1]) (one digit), Add (big_of), != , axiom_big_of.
    (r"let domain = if restricted_admin_mode", 1,
     "proof { broadcast use axiom_big_of; assert(%s == link.peer_key());\n"
     "        assert(le_nat(inc_pub_key@) == le_nat(link.peer_key()) + 1); }" % KEY, "before", "C01", "validated-before-credentials"),
    # 2. inc_pub_key is what the security interface (state before the call: unseal0) accepted for the pubKeyAuth token of the
    #    TSRequest made of exactly the bytes rest0.take(k) this link.read(0) consumed (rest0: unread input just before).
    #    Witnesses: k = number of bytes consumed, tok = the pubKeyAuth of those bytes.
    (r"let inc_pub_key = ", 1,
     "proof { let k0 = rest0.len() - link.rest().len(); let tok0 = ts_pub_key_auth(rest0.take(k0))->Some_0;\n"
     "        assert(link.rest() == rest0.skip(k0)); assert(ts_pub_key_auth(rest0.take(k0)) == Some(tok0) && unseal0(tok0) == Some(inc_pub_key@));\n"
     "        assert(exists|k: int, tok: Seq<u8>| #![trigger ts_pub_key_auth(rest0.take(k)), unseal0(tok)]\n"
     "            0 <= k <= rest0.len() && link.rest() == rest0.skip(k) && ts_pub_key_auth(rest0.take(k)) == Some(tok) && unseal0(tok) == Some(inc_pub_key@)); }",
     "after", "C01", "reply-was-unsealed-from-the-wire"),
    # 3. the second message carries the seal (state before the wrap: seal0) of this link's certificate key
    (r"let challenge = create_ts_authenticate", 1,
     "proof { assert(challenge@ == der_ts_authenticate(cc, seal0(link.peer_key()))); }", "after", "C01", "pubkeyauth-seals-this-links-key"),
    # 4. failed validation: nothing was written after the second message (and what was written is exactly the first two messages)
    (r"return Err\(.*PossibleMITM", 1,
     "proof { assert(w2 == wi + negotiate_message@ + challenge@); assert(link.written() == w2); }", "before", "C01", "nothing-written-after-failed-validation"),
    # 5. restricted admin: empty domain, user, password
    (r"let credentials = ", 1,
     "proof { assert(%s); assert(%s); assert(%s); }" % (EMPTY_OR("domain", "domain_spec"), EMPTY_OR("user", "user_spec"), EMPTY_OR("password", "password_spec")),
     "before", "C17", "credentials-by-mode"),
    # 6. the third message is the TSRequest.authInfo of the SEAL (state before the second wrap: seal2) of the TSCredentials;
    #    dom/usr/pwd are the ghost values of domain@/user@/password@ (the vectors are moved into create_ts_credentials);
    #    the two extra assertions restate it without the ghost names
    (r"let credentials = ", 1,
     "proof { assert(restricted_admin_mode ==> credentials@ == der_ts_authinfo(seal2(der_ts_credentials(Seq::<u8>::empty(), Seq::<u8>::empty(), Seq::<u8>::empty()))));\n"
     "        assert(!restricted_admin_mode ==> credentials@ == der_ts_authinfo(seal2(der_ts_credentials(authentication_protocol.domain_spec(), authentication_protocol.user_spec(), authentication_protocol.password_spec()))));\n"
     "        assert(credentials@ == der_ts_authinfo(seal2(der_ts_credentials(dom, usr, pwd)))); }",
     "after", "C17,C01", "credentials-only-sealed"),
]

A(Fn(CSSP, "cssp_connect", mod="cssp", props=["C01", "C17", "C07", "C03", "C02"],
     requires=["old(link).tls()"],
     ensures=[("C02", "link-stays-tls", "final(link).tls() && final(link).cert_checked() == old(link).cert_checked() && final(link).peer_key() == old(link).peer_key()"),
              (None, "monotone", "is_prefix(old(link).written(), final(link).written()) && is_suffix(final(link).rest(), old(link).rest())"),
              ("C01,C03", "three-messages-credentials-last", """r is Ok ==> exists|n: Seq<u8>, c: Seq<u8>, w1: Seq<u8>, w2: Seq<u8>|
                    #[trigger] (der_ts_request(n) + der_ts_authenticate(c, w1) + der_ts_authinfo(w2)) == (der_ts_request(n) + der_ts_authenticate(c, w1) + der_ts_authinfo(w2))
                    && final(link).written() =~= old(link).written() + der_ts_request(n) + der_ts_authenticate(c, w1) + der_ts_authinfo(w2)"""),
              # the same fact as one predicate, so that callers (tpkt::start_nla, unit nego) can carry "Ok only after CredSSP completed" upwards
              ("C01,C03", "credssp-done", "r is Ok ==> credssp_done(old(link).written(), final(link).written())")],
     pre="let ghost wi = link.written(); let ghost pk = link.peer_key();",
     hints=HINTS, claims=CLAIMS))

UNIT = Unit("cssp", F.UNIT.preludes + ["nla.rs"], items,
            uses={"cssp": ["use super::link::*;", "use super::sspi::*;"]}, mods=["link", "sspi", "cssp"])
