"""unit cssp: src/nla/cssp.rs cssp_connect — the CredSSP exchange over an established TLS link.
C01 (credentials only after the server proved the session key over THIS link's certificate; nothing after a failed validation),
C17 (credentials emptied in restricted-admin mode, handed only to the sealing function), C07 (hostile TSRequest bytes), C03 (message order)."""
from vx.spec import *
from specs import frame as F

CSSP = "src/nla/cssp.rs"
LINK = F.LINK

items = [x for x in stubs_of(F.UNIT.items, "frame") if getattr(x, "mod", None) == "link"]
A = items.append
A(Stub(LINK, "get_peer_certificate", impl=r"Link<S>", mod="link", why="native-tls: peer_certificate() of the TLS session of this link",
       ensures=["r is Ok ==> self.tls()", "r is Ok && r->Ok_0 is Some ==> r->Ok_0->Some_0.key() == self.peer_key()"]))

A(Raw(r"""
/// src/nla/sspi.rs traits with their ghost contracts (the NTLM implementation is verified against them in unit ntlm)
pub trait GenericSecurityService {
    /// the token this context emits when sealing `data` in its current state
    spec fn seal_spec(&self, data: Seq<u8>) -> Seq<u8>;
    /// the plaintext this context accepts for the sealed token `data` in its current state (None: rejected)
    spec fn unseal_spec(&self, data: Seq<u8>) -> Option<Seq<u8>>;
    fn gss_wrapex(&mut self, data: &[u8]) -> (r: RdpResult<Vec<u8>>)
        ensures r is Ok ==> r->Ok_0@ == old(self).seal_spec(data@);
    fn gss_unwrapex(&mut self, data: &[u8]) -> (r: RdpResult<Vec<u8>>)
        ensures r is Ok ==> old(self).unseal_spec(data@) == Some(r->Ok_0@);
}
pub trait AuthenticationProtocol {
    spec fn domain_spec(&self) -> Seq<u8>;
    spec fn user_spec(&self) -> Seq<u8>;
    spec fn password_spec(&self) -> Seq<u8>;
    fn create_negotiate_message(&mut self) -> (r: RdpResult<Vec<u8>>);
    fn read_challenge_message(&mut self, request: &[u8]) -> (r: RdpResult<Vec<u8>>);
    fn build_security_interface(&self) -> (r: Box<dyn GenericSecurityService>);
    fn get_domain_name(&self) -> (r: Vec<u8>) ensures r@ == self.domain_spec();
    fn get_user_name(&self) -> (r: Vec<u8>) ensures r@ == self.user_spec();
    fn get_password(&self) -> (r: Vec<u8>) ensures r@ == self.password_spec();
}
""", mod="sspi", name="sspi_contracts"))

A(Raw(r"""
// ---------------- MS-CSSP TSRequest structures as abstract DER encoders / decoders (yasna + src/nla/asn1.rs: external, ASSUMED)
pub uninterp spec fn der_ts_request(nego: Seq<u8>) -> Seq<u8>;
pub uninterp spec fn der_ts_authenticate(nego: Seq<u8>, pub_key_auth: Seq<u8>) -> Seq<u8>;
pub uninterp spec fn der_ts_authinfo(auth_info: Seq<u8>) -> Seq<u8>;
pub uninterp spec fn der_ts_credentials(domain: Seq<u8>, user: Seq<u8>, password: Seq<u8>) -> Seq<u8>;
/// first negoToken of a TSRequest / pubKeyAuth of a TSRequest (None: not a well-formed TSRequest of that shape)
pub uninterp spec fn ts_first_nego_token(der: Seq<u8>) -> Option<Seq<u8>>;
pub uninterp spec fn ts_pub_key_auth(der: Seq<u8>) -> Option<Seq<u8>>;
""", mod="cssp", name="cssp_der_specs"))
DER_WHY = "ASN.1 DER through the yasna crate and src/nla/asn1.rs: external encoder/decoder, assumed to implement the MS-CSSP structures"
A(Stub(CSSP, "create_ts_request", mod="cssp", why=DER_WHY, ensures=["r@ == der_ts_request(nego@)"]))
A(Stub(CSSP, "read_ts_server_challenge", mod="cssp", why=DER_WHY, ensures=["r is Ok ==> ts_first_nego_token(stream@) == Some(r->Ok_0@)"]))
A(Stub(CSSP, "create_ts_authenticate", mod="cssp", why=DER_WHY, ensures=["r@ == der_ts_authenticate(nego@, pub_key_auth@)"]))
A(Stub(CSSP, "read_public_certificate", mod="cssp", why="x509-parser crate",
       ensures=["r is Ok ==> der_cert_key(stream@) == Some(r->Ok_0.tbs_certificate.subject_pki.subject_public_key.data@)"]))
A(Stub(CSSP, "read_ts_validate", mod="cssp", why=DER_WHY, ensures=["r is Ok ==> ts_pub_key_auth(request@) == Some(r->Ok_0@)"]))
A(Stub(CSSP, "create_ts_credentials", mod="cssp", why=DER_WHY, ensures=["r@ == der_ts_credentials(domain@, user@, password@)"]))
A(Stub(CSSP, "create_ts_authinfo", mod="cssp", why=DER_WHY, ensures=["r@ == der_ts_authinfo(auth_info@)"]))

# TODO(agent): ghost snapshots + claims
A(Fn(CSSP, "cssp_connect", mod="cssp", props=["C01", "C17", "C07", "C03", "C02"],
     requires=["old(link).tls()"],
     ensures=[("C02", "link-stays-tls", "final(link).tls() && final(link).cert_checked() == old(link).cert_checked() && final(link).peer_key() == old(link).peer_key()"),
              (None, "monotone", "is_prefix(old(link).written(), final(link).written()) && is_suffix(final(link).rest(), old(link).rest())"),
              ("C01,C03", "three-messages-credentials-last", """r is Ok ==> exists|n: Seq<u8>, c: Seq<u8>, w1: Seq<u8>, w2: Seq<u8>|
                    #[trigger] (der_ts_request(n) + der_ts_authenticate(c, w1) + der_ts_authinfo(w2)) == (der_ts_request(n) + der_ts_authenticate(c, w1) + der_ts_authinfo(w2))
                    && final(link).written() =~= old(link).written() + der_ts_request(n) + der_ts_authenticate(c, w1) + der_ts_authinfo(w2)""")]))

UNIT = Unit("cssp", F.UNIT.preludes + ["nla.rs"], items,
            uses={"cssp": ["use super::link::*;", "use super::sspi::*;"]}, mods=["link", "sspi", "cssp"])
