"""unit text: the two UTF-16LE encoders, REAL bodies
    * src/model/unicode.rs  `impl Unicode for String { fn to_unicode }`   (used by mcs / sec / connector through the prelude contract)
    * src/nla/ntlm.rs       `fn unicode(data: &String) -> Vec<u8>`        (used by unit ntlm through a Stub verified_in="text")
both proved against  `r@ == utf16le(<string>@)`  where utf16le(s) = units_le(utf16_units(s)) (prelude/unicode.rs): the bytes are, unit by unit and in
order, the little-endian encoding of what std's encode_utf16 yields.

Built over the OBJECT-SAFE engine contract (prelude/engine2_model.rs) because only there does `Message::write` carry clause E1 (`an infallible sink never makes
write fail`), which is what `.unwrap()` needs; E1 is PROVED for the real `impl Message for U16` in unit engine2 (used here as a Stub verified_in="engine2").

Declared rewrites (R6, logged):
  Rit   `for c in <s>.encode_utf16() {`  ->  `let __units = encode_utf16_units(<s>); let mut __i: usize = 0; while __i < __units.len() { let c = __units[__i]; __i += 1;`
        (std's EncodeUtf16 iterator has no Verus model; prelude/unicode.rs `encode_utf16_units` is the TRUSTED stand-in: same units, same order); loop BODY verbatim
  Rco   `encode_char.write(&mut result)` -> `encode_char.write(dyn_writer(&mut result))`: the unsizing coercion `&mut Cursor<Vec<u8>> -> &mut dyn Write` made explicit,
        the SAME rewrite unit engine2 applies to to_vec (trusted identity helper of prelude/engine2_model.rs)

`String::to_unicode` is verified as the method `to_unicode_checked` of the twin trait `UnicodeChecked` (impl header rewritten by impl_sub, function renamed; same
extracted text): prelude/unicode.rs keeps the callable `impl Unicode for String` contract for the units above, and two impls of one trait cannot coexist.
The clause text of the prelude contract is compared with the one proved here on every assembly (_CheckedUnit).
"""
import os, re
from vx.spec import *
from vx.extract import LostAnchor
from specs import engine2 as E2

VERIF = os.path.dirname(os.path.dirname(os.path.abspath(__file__)))
UNICODE_RS = "src/model/unicode.rs"
NTLM_RS = "src/nla/ntlm.rs"

# the clause proved here == the clause every other unit assumes through prelude/unicode.rs
TO_UNICODE_ENSURES = "r@ == utf16le(self@)"
UNICODE_ENSURES = "r@ == utf16le(data@)"


def check_prelude_clause():
    txt = open(os.path.join(VERIF, "prelude", "unicode.rs")).read()
    m = re.search(r"impl Unicode for String \{.*?fn to_unicode\(&self\) -> \(r: Vec<u8>\)\s*ensures\s+(.*?)\s*\{ unimplemented!\(\) \}", txt, re.S)
    if not m:
        raise LostAnchor("text: cannot find the contract of `impl Unicode for String` in prelude/unicode.rs")
    clauses = [" ".join(c.split()) for c in m.group(1).rstrip(",").split(",") if c.strip()]
    if clauses != [TO_UNICODE_ENSURES]:
        raise LostAnchor("text: prelude/unicode.rs assumes %r for String::to_unicode, unit text proves %r" % (clauses, [TO_UNICODE_ENSURES]))


def check_ntlm_clause():
    """unit ntlm assumes (Stub verified_in="text") exactly what is proved here for ntlm::unicode"""
    from specs import ntlm as N
    assumed = [" ".join(c.split()) for c in N.STUBS["unicode"]["ensures"]]
    if assumed != [UNICODE_ENSURES] or N.STUBS["unicode"].get("verified_in") != "text":
        raise LostAnchor("text: unit ntlm assumes %r for ntlm::unicode, unit text proves %r" % (assumed, [UNICODE_ENSURES]))


class _CheckedUnit(Unit):
    """compares the assumed prelude clause with the proved one whenever the unit is assembled"""

    @property
    def preludes(self):
        check_prelude_clause()
        check_ntlm_clause()
        return self._preludes

    @preludes.setter
    def preludes(self, v):
        self._preludes = v


# ---- what the bodies call: Value / U16 and `impl Message for U16` of src/model/data.rs, by the contracts unit engine2 proves for the real bodies
def _wanted(x):
    if x.kind == "item":
        return x.name in ("Trame", "Component", "Value", "U16")
    if x.kind == "raw":
        return x.name in ("value_val", "views_U16")
    return x.kind in ("fn", "stub") and x.impl is not None and x.impl.startswith(r"Message for U16")

items = [x for x in stubs_of(E2.UNIT.items, "engine2") if _wanted(x)]
A = items.append

A(Raw(r"""
/// twin of the prelude trait `Unicode` (prelude/unicode.rs): carries the REAL body of `impl Unicode for String` (see the module doc of specs/text.py)
pub trait UnicodeChecked {
    fn to_unicode_checked(&self) -> (r: Vec<u8>);
}
""", mod="text", name="unicode_checked_trait"))


def _loop_header(var):
    return [(r"for c in %s\.encode_utf16\(\) \{" % var,
             "let __units = encode_utf16_units(%s); let mut __i: usize = 0; while __i < __units.len() { let c = __units[__i]; __i += 1;" % var)]

RCO = [(r"encode_char\.write\(&mut result\)", "encode_char.write(dyn_writer(&mut result))")]

# the cursor stays positioned at its end (an in-memory sink: every write succeeds) and holds the bytes of the units consumed so far
LOOP = """invariant __i <= __units.len(),
            result.pos() == result.data().len(),
            result.data() == units_le(__units@.take(__i as int)),
        decreases __units.len() - __i"""

HINTS = [
    (r"let encode_char = U16::LE\(c\);", 1, "let ghost d0 = result.data();", "before"),
    (r"encode_char\.write\(dyn_writer\(&mut result\)\)\.unwrap\(\);", 1, """proof {
            reveal_with_fuel(ser, 1);
            assert(__units@.take(__i as int) =~= __units@.take(__i - 1).push(c));
            lemma_units_le_push(__units@.take(__i - 1), c);
            assert(result.data() == d0 + le16(c));
        }"""),
    # `return result.into_inner()` is an explicit return: the final facts are stated before it
    (r"return result\.into_inner\(\)", 1, "proof { reveal(utf16le); assert(__units@.take(__units@.len() as int) =~= __units@); }", "before"),
]


def _fn(file, name, var, ens, **kw):
    return Fn(file, name, mod="text", dyn=False, nloops=1, body_sub=_loop_header(var) + RCO, loops={1: LOOP}, hints=HINTS, ensures=[ens], **kw)

PROPS = ["C15", "C04", "C17"]
TO_UNICODE = _fn(UNICODE_RS, "to_unicode", "self", ("C15,C04,C17", "utf16le-of-std-units", TO_UNICODE_ENSURES), props=PROPS,
                 impl=r"^impl Unicode for String$", impl_sub=[(r"^impl Unicode for String$", "impl UnicodeChecked for String")], rename="to_unicode_checked")
TO_UNICODE.impl_label = "String"
A(TO_UNICODE)

NTLM_UNICODE = _fn(NTLM_RS, "unicode", "data", ("C15,C04,C17", "utf16le-of-std-units", UNICODE_ENSURES), props=PROPS)
A(NTLM_UNICODE)

# not used today: for a unit that wants to pull the proved contract of ntlm::unicode from here (`items += TEXT_STUBS`) instead of spelling its own Stub
TEXT_STUBS = [to_stub(NTLM_UNICODE, "text")]

UNIT = _CheckedUnit("text", ["base.rs", "collections.rs", "engine2_model.rs", "unicode.rs"], items, mods=[None, "data", "text"],
                    uses={"text": ["use super::data::*;"], "data": ["use vstd::std_specs::cmp::PartialEqSpec;"]},
                    doc="UTF-16LE encoders String::to_unicode and ntlm::unicode (real bodies) against utf16le = little-endian bytes of encode_utf16's code units")
